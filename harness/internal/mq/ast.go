// Package mq is the harness' own model of the dtail mapreduce query language:
// an abstract query, a renderer producing the many surface forms the
// documented grammar allows, and an independent reference evaluator.
// It is written from doc/querylanguage.md and doc/logformats.md, not from the
// parser under test.
package mq

import (
	"fmt"
	"math/rand"
	"strings"
)

// Sel is one select item.
type Sel struct {
	Agg   string `json:"agg"`   // "" (bare field, behaves like last), count,sum,min,max,avg,last,len
	Field string `json:"field"` // field name
	// Backquoted: the whole item was written as `...` and is taken literally
	// as a field name (even if it looks like an aggregation).
	Backquoted bool `json:"bq,omitempty"`
}

// Storage is the column name of the select item.
func (s Sel) Storage() string {
	if s.Agg == "" || s.Backquoted {
		return s.Field
	}
	return s.Agg + "(" + s.Field + ")"
}

// Op returns the effective aggregation.
func (s Sel) Op() string {
	if s.Agg == "" || s.Backquoted {
		return "last"
	}
	return s.Agg
}

// Operand of a where condition.
type Operand struct {
	Kind string `json:"kind"` // field | number | string
	Text string `json:"text"`
}

// Where is one condition.
type Where struct {
	L  Operand `json:"l"`
	Op string  `json:"op"`
	R  Operand `json:"r"`
}

// Set is one set assignment: $L = rhs.
type Set struct {
	L     string   `json:"l"`               // variable incl. leading $
	Kind  string   `json:"kind"`            // field | number | string | func | bqfield
	R     string   `json:"r"`               // field name / number text / string text / function argument
	Funcs []string `json:"funcs,omitempty"` // outermost first
}

// Outfile clause.
type Outfile struct {
	Path   string `json:"path"`
	Append bool   `json:"append,omitempty"`
	Quoted bool   `json:"quoted,omitempty"`
}

// Query is the abstract query.
type Query struct {
	Sel       []Sel    `json:"sel"`
	Table     string   `json:"table,omitempty"` // as written (any case)
	Where     []Where  `json:"where,omitempty"`
	Set       []Set    `json:"set,omitempty"`
	GroupBy   []string `json:"group_by,omitempty"`
	OrderBy   string   `json:"order_by,omitempty"` // a Storage() of Sel
	Reverse   bool     `json:"reverse,omitempty"`
	Interval  *int     `json:"interval,omitempty"`
	Limit     *int     `json:"limit,omitempty"`
	Outfile   *Outfile `json:"outfile,omitempty"`
	LogFormat string   `json:"logformat,omitempty"`
}

// EffectiveGroupBy: group by defaults to the first select item's field.
func (q *Query) EffectiveGroupBy() []string {
	if len(q.GroupBy) > 0 {
		return q.GroupBy
	}
	if len(q.Sel) > 0 {
		return []string{q.Sel[0].Field}
	}
	return nil
}

var floatOps = []string{"==", "!=", "<", "<=", ">", ">="}
var stringOps = []string{"eq", "ne", "contains", "ncontains", "lacks", "hasprefix", "nhasprefix", "hassuffix", "nhassuffix"}

// IsFloatOp reports whether op is a float operator.
func IsFloatOp(op string) bool {
	for _, o := range floatOps {
		if o == op {
			return true
		}
	}
	return false
}

// Style controls the surface form.
type Style struct {
	Rng *rand.Rand
	// Plain: canonical order, lower case, single blanks, commas.
	Plain bool
}

// num renders a non-negative decimal number, now and then with leading zeros (a decimal number is a decimal number:
// 010 is ten).
func (st *Style) num(v int) string {
	if st.Plain || v < 0 || st.Rng.Intn(6) != 0 {
		return fmt.Sprint(v)
	}
	return strings.Repeat("0", 1+st.Rng.Intn(2)) + fmt.Sprint(v)
}

func (st *Style) kw(s string) string {
	if st.Plain {
		return s
	}
	switch st.Rng.Intn(4) {
	case 0:
		return strings.ToUpper(s)
	case 1:
		return strings.ToUpper(s[:1]) + s[1:]
	case 2: // random per letter
		b := []byte(s)
		for i := range b {
			if st.Rng.Intn(2) == 0 {
				b[i] = strings.ToUpper(string(b[i]))[0]
			}
		}
		return string(b)
	}
	return s
}

func (st *Style) ws() string {
	if st.Plain {
		return " "
	}
	switch st.Rng.Intn(8) {
	case 0:
		return "  "
	case 1:
		return "\t"
	case 2:
		return "\n"
	case 3:
		return " \t "
	}
	return " "
}

// sep separates list items: comma, blanks or both.
func (st *Style) sep() string {
	if st.Plain {
		return ","
	}
	switch st.Rng.Intn(6) {
	case 0:
		return " "
	case 1:
		return ", "
	case 2:
		return " ,"
	case 3:
		return " , "
	case 4:
		return ",\n\t"
	}
	return ","
}

func quote(s string) string { return "\"" + s + "\"" }

func renderOperand(o Operand) string {
	if o.Kind == "string" {
		return quote(o.Text)
	}
	return o.Text
}

// Render produces one surface form of the query.
func (q *Query) Render(st *Style) string {
	type clause struct {
		name string
		text string
	}
	var clauses []clause

	var sel []string
	for _, s := range q.Sel {
		switch {
		case s.Backquoted:
			sel = append(sel, "`"+s.Field+"`")
		case s.Agg == "":
			sel = append(sel, s.Field)
		default:
			sel = append(sel, s.Agg+"("+s.Field+")")
		}
	}
	joinList := func(items []string) string {
		var sb strings.Builder
		for i, it := range items {
			if i > 0 {
				sb.WriteString(st.sep())
			}
			sb.WriteString(it)
		}
		return sb.String()
	}
	clauses = append(clauses, clause{"select", st.kw("select") + st.ws() + joinList(sel)})
	if q.Table != "" {
		clauses = append(clauses, clause{"from", st.kw("from") + st.ws() + q.Table})
	}
	if len(q.Where) > 0 {
		var sb strings.Builder
		sb.WriteString(st.kw("where") + st.ws())
		for i, w := range q.Where {
			if i > 0 {
				// conditions are separated by comma, blanks, or "and"
				if st.Plain {
					sb.WriteString(", ")
				} else {
					switch st.Rng.Intn(4) {
					case 0:
						sb.WriteString(st.ws() + st.kw("and") + st.ws())
					case 1:
						sb.WriteString(" ")
					default:
						sb.WriteString(st.sep() + " ")
					}
				}
			}
			sb.WriteString(renderOperand(w.L) + st.ws() + w.Op + st.ws() + renderOperand(w.R))
		}
		clauses = append(clauses, clause{"where", sb.String()})
	}
	if len(q.Set) > 0 {
		var items []string
		for _, s := range q.Set {
			var rhs string
			switch s.Kind {
			case "string":
				rhs = quote(s.R)
			case "bqfield":
				rhs = "`" + s.R + "`"
			case "func":
				rhs = s.R
				for i := len(s.Funcs) - 1; i >= 0; i-- {
					rhs = s.Funcs[i] + "(" + rhs + ")"
				}
			default:
				rhs = s.R
			}
			items = append(items, s.L+st.ws()+"="+st.ws()+rhs)
		}
		clauses = append(clauses, clause{"set", st.kw("set") + st.ws() + joinList(items)})
	}
	if len(q.GroupBy) > 0 {
		by := st.ws() + st.kw("by")
		if !st.Plain && st.Rng.Intn(5) == 0 {
			by = "" // "by" is optional
		}
		var items []string
		for _, g := range q.GroupBy {
			if isKeyword(g) || (!st.Plain && st.Rng.Intn(6) == 0) {
				items = append(items, "`"+g+"`")
			} else {
				items = append(items, g)
			}
		}
		clauses = append(clauses, clause{"group", st.kw("group") + by + st.ws() + joinList(items)})
	}
	if q.OrderBy != "" {
		k := "order"
		if q.Reverse {
			k = "rorder"
		}
		by := st.ws() + st.kw("by")
		if !st.Plain && st.Rng.Intn(5) == 0 {
			by = ""
		}
		ob := q.OrderBy
		// a back-quoted select item is referenced back-quoted as well
		for _, s := range q.Sel {
			if s.Backquoted && s.Field == ob {
				ob = "`" + ob + "`"
				break
			}
		}
		clauses = append(clauses, clause{k, st.kw(k) + by + st.ws() + ob})
	}
	if q.Interval != nil {
		clauses = append(clauses, clause{"interval", st.kw("interval") + st.ws() + st.num(*q.Interval)})
	}
	if q.Limit != nil {
		clauses = append(clauses, clause{"limit", st.kw("limit") + st.ws() + st.num(*q.Limit)})
	}
	if q.Outfile != nil {
		t := st.kw("outfile") + st.ws()
		if q.Outfile.Append {
			t += "append" + st.ws()
		}
		if q.Outfile.Quoted {
			t += quote(q.Outfile.Path)
		} else {
			t += q.Outfile.Path
		}
		clauses = append(clauses, clause{"outfile", t})
	}
	if q.LogFormat != "" {
		clauses = append(clauses, clause{"logformat", st.kw("logformat") + st.ws() + q.LogFormat})
	}
	if !st.Plain {
		st.Rng.Shuffle(len(clauses), func(i, j int) { clauses[i], clauses[j] = clauses[j], clauses[i] })
	}
	var sb strings.Builder
	if !st.Plain && st.Rng.Intn(6) == 0 {
		sb.WriteString(st.ws())
	}
	for i, c := range clauses {
		if i > 0 {
			sb.WriteString(st.ws())
		}
		sb.WriteString(c.text)
	}
	if !st.Plain && st.Rng.Intn(6) == 0 {
		sb.WriteString(st.ws())
	}
	return sb.String()
}

var keywords = []string{"select", "from", "where", "set", "group", "rorder", "order", "interval", "limit", "outfile", "logformat"}

func isKeyword(s string) bool {
	l := strings.ToLower(s)
	for _, k := range keywords {
		if k == l {
			return true
		}
	}
	return false
}
