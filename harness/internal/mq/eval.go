package mq

import (
	"crypto/md5"
	"encoding/hex"
	"fmt"
	"math"
	"sort"
	"strconv"
	"strings"
)

// Line is one input line together with where it lives.
type Line struct {
	Text   string `json:"text"`
	Server string `json:"server"` // host name of the server holding the line
}

// ParseLine turns a log line into fields per the documented log formats.
// ok=false means the line is not a mapreduce line of that format/table.
// csvHeader is the header of the csv file the line belongs to.
func ParseLine(format, table string, l Line, csvHeader []string) (map[string]string, bool) {
	f := map[string]string{
		"*": "*", "$line": l.Text, "$empty": "", "$hostname": l.Server, "$server": l.Server,
	}
	switch format {
	case "default":
		p := strings.Split(l.Text, "|")
		if len(p) < 11 || !strings.HasPrefix(p[0], "INFO") || !strings.HasPrefix(p[9], "MAPREDUCE:") {
			return nil, false
		}
		if table != "" && table != "*" && table != "." {
			if p[9] != "MAPREDUCE:"+strings.ToUpper(table) {
				return nil, false
			}
		}
		f["$severity"], f["$loglevel"] = p[0], p[0]
		f["$time"] = p[1]
		if len(p[1]) == 15 {
			f["$date"], f["$hour"], f["$minute"], f["$second"] = p[1][0:8], p[1][9:11], p[1][11:13], p[1][13:]
		}
		f["$pid"], f["$caller"], f["$cpus"], f["$goroutines"] = p[2], p[3], p[4], p[5]
		f["$cgocalls"], f["$loadavg"], f["$uptime"] = p[6], p[7], p[8]
		for _, kv := range p[10:] {
			i := strings.Index(kv, "=")
			if i < 0 {
				return nil, false
			}
			f[kv[:i]] = kv[i+1:]
		}
	case "generickv":
		for _, kv := range strings.Split(l.Text, "|") {
			i := strings.Index(kv, "=")
			if i < 0 {
				continue
			}
			f[kv[:i]] = kv[i+1:]
		}
	case "csv":
		vals := strings.Split(l.Text, ",")
		if len(vals) > len(csvHeader) {
			return nil, false
		}
		for i, v := range vals {
			f[csvHeader[i]] = v
		}
	case "generic":
	default:
		return nil, false
	}
	return f, true
}

func num(s string) (float64, bool) {
	v, err := strconv.ParseFloat(s, 64)
	if err != nil {
		return 0, false
	}
	return v, true
}

// EvalWhere evaluates the (conjunctive) where clause.
func (q *Query) EvalWhere(f map[string]string) bool {
	for _, w := range q.Where {
		if IsFloatOp(w.Op) {
			val := func(o Operand) (float64, bool) {
				if o.Kind == "number" {
					return num(o.Text)
				}
				s, ok := f[o.Text]
				if !ok {
					return 0, false
				}
				return num(s)
			}
			l, ok1 := val(w.L)
			r, ok2 := val(w.R)
			if !ok1 || !ok2 {
				return false
			}
			var t bool
			switch w.Op {
			case "==":
				t = l == r
			case "!=":
				t = l != r
			case "<":
				t = l < r
			case "<=":
				t = l <= r
			case ">":
				t = l > r
			case ">=":
				t = l >= r
			}
			if !t {
				return false
			}
			continue
		}
		val := func(o Operand) (string, bool) {
			if o.Kind == "string" {
				return o.Text, true
			}
			s, ok := f[o.Text]
			return s, ok
		}
		l, ok1 := val(w.L)
		r, ok2 := val(w.R)
		if !ok1 || !ok2 {
			return false
		}
		var t bool
		switch w.Op {
		case "eq":
			t = l == r
		case "ne":
			t = l != r
		case "contains":
			t = strings.Contains(l, r)
		case "ncontains", "lacks":
			t = !strings.Contains(l, r)
		case "hasprefix":
			t = strings.HasPrefix(l, r)
		case "nhasprefix":
			t = !strings.HasPrefix(l, r)
		case "hassuffix":
			t = strings.HasSuffix(l, r)
		case "nhassuffix":
			t = !strings.HasSuffix(l, r)
		}
		if !t {
			return false
		}
	}
	return true
}

func applyFunc(name, s string) string {
	switch name {
	case "md5sum":
		h := md5.Sum([]byte(s))
		return hex.EncodeToString(h[:])
	case "maskdigits":
		b := []byte(s)
		for i, c := range b {
			if c >= '0' && c <= '9' {
				b[i] = '.'
			}
		}
		return string(b)
	}
	return s
}

// ApplySet applies the set assignments (in order) to the fields.
func (q *Query) ApplySet(f map[string]string) {
	for _, s := range q.Set {
		v, ok := f[s.R]
		if !ok {
			v = s.R // literal
		}
		if s.Kind == "func" {
			for i := len(s.Funcs) - 1; i >= 0; i-- {
				v = applyFunc(s.Funcs[i], v)
			}
		}
		f[s.L] = v
	}
}

// Col is the reference knowledge about one result column of one group.
type Col struct {
	Op     string
	Count  int             // lines having the field
	Nums   []float64       // numeric values seen
	Vals   map[string]bool // all values seen (last/len)
	AllNum bool            // every sampled line of the group had a numeric value in this field
}

// Group is one result row of the reference.
type Group struct {
	Key     string
	Samples int // lines contributing at least one aggregated select item
	Cols    []*Col
}

// Evaluate computes the reference result groups for the lines (central
// evaluation, once over all lines). csvHeaders maps "server" to the csv
// header when format is csv.
func (q *Query) Evaluate(format string, lines []Line, csvHeader []string) map[string]*Group {
	groups := map[string]*Group{}
	for _, l := range lines {
		f, ok := ParseLine(format, q.Table, l, csvHeader)
		if !ok {
			continue
		}
		if !q.EvalWhere(f) {
			continue
		}
		q.ApplySet(f)
		var kp []string
		for _, g := range q.EffectiveGroupBy() {
			kp = append(kp, f[g])
		}
		key := strings.Join(kp, ",")
		g := groups[key]
		if g == nil {
			g = &Group{Key: key}
			for _, s := range q.Sel {
				g.Cols = append(g.Cols, &Col{Op: s.Op(), Vals: map[string]bool{}, AllNum: true})
			}
			groups[key] = g
		}
		sampled := false
		numeric := make([]bool, len(q.Sel))
		for i, s := range q.Sel {
			v, ok := f[s.Field]
			if !ok {
				continue
			}
			c := g.Cols[i]
			switch c.Op {
			case "count":
				c.Count++
				sampled = true
			case "last", "len":
				c.Vals[v] = true
				sampled = true
			default:
				if x, ok := num(v); ok {
					c.Nums = append(c.Nums, x)
					numeric[i] = true
					sampled = true
				}
			}
		}
		if sampled {
			g.Samples++
			for i := range q.Sel {
				switch g.Cols[i].Op {
				case "sum", "avg", "min", "max":
					if !numeric[i] {
						g.Cols[i].AllNum = false
					}
				}
			}
		}
	}
	// groups without any sample produce no row
	for k, g := range groups {
		if g.Samples == 0 {
			delete(groups, k)
		}
	}
	return groups
}

// Expect describes what a cell may be.
type Expect struct {
	Kind    string // int | float | oneof | any
	F       float64
	OneOf   []string
	Comment string
}

// ExpectRow returns the per-column expectations of a group.
func (q *Query) ExpectRow(g *Group) []Expect {
	out := make([]Expect, len(q.Sel))
	for i, c := range g.Cols {
		switch c.Op {
		case "count":
			out[i] = Expect{Kind: "float", F: float64(c.Count)}
		case "sum":
			s := 0.0
			for _, x := range c.Nums {
				s += x
			}
			out[i] = Expect{Kind: "float", F: s}
		case "min":
			if len(c.Nums) == 0 {
				out[i] = Expect{Kind: "float", F: 0}
				break
			}
			m := math.Inf(1)
			for _, x := range c.Nums {
				m = math.Min(m, x)
			}
			out[i] = Expect{Kind: "float", F: m}
		case "max":
			if len(c.Nums) == 0 {
				out[i] = Expect{Kind: "float", F: 0}
				break
			}
			m := math.Inf(-1)
			for _, x := range c.Nums {
				m = math.Max(m, x)
			}
			out[i] = Expect{Kind: "float", F: m}
		case "avg":
			if !c.AllNum || g.Samples == 0 {
				out[i] = Expect{Kind: "any", Comment: "avg over lines lacking a numeric value is not defined by the documentation"}
				break
			}
			s := 0.0
			for _, x := range c.Nums {
				s += x
			}
			out[i] = Expect{Kind: "float", F: s / float64(g.Samples)}
		case "last":
			e := Expect{Kind: "oneof"}
			for v := range c.Vals {
				e.OneOf = append(e.OneOf, v)
			}
			if len(e.OneOf) == 0 {
				e.OneOf = []string{""}
			}
			sort.Strings(e.OneOf)
			out[i] = e
		case "len":
			e := Expect{Kind: "oneof"}
			seen := map[string]bool{}
			for v := range c.Vals {
				s := fmt.Sprintf("%f", float64(len(v)))
				if !seen[s] {
					seen[s] = true
					e.OneOf = append(e.OneOf, s)
				}
			}
			if len(e.OneOf) == 0 {
				e.OneOf = []string{"0.000000"}
			}
			sort.Strings(e.OneOf)
			out[i] = e
		}
	}
	return out
}

// CellOK checks an observed CSV cell against the expectation.
func CellOK(e Expect, cell string) bool {
	switch e.Kind {
	case "any":
		return true
	case "oneof":
		for _, v := range e.OneOf {
			if v == cell {
				return true
			}
		}
		return false
	case "float":
		x, ok := num(cell)
		if !ok {
			return false
		}
		return FloatClose(x, e.F)
	}
	return false
}

// FloatClose: equal up to the 6 decimals the CSV prints and float rounding of sums.
func FloatClose(a, b float64) bool {
	d := math.Abs(a - b)
	return d <= 2e-6+1e-9*math.Max(math.Abs(a), math.Abs(b))
}

// OrderValue returns the value a row is ordered by given its observed cells.
func (q *Query) OrderValue(cells []string) float64 {
	for i, s := range q.Sel {
		if s.Storage() == q.OrderBy && i < len(cells) {
			v, _ := num(cells[i])
			return v
		}
	}
	return 0
}

// CheckResult compares observed CSV rows (without header) with the reference
// groups. It returns "" if the observation is permitted, else a description.
func (q *Query) CheckResult(groups map[string]*Group, header []string, rows [][]string) string {
	var wantHeader []string
	for _, s := range q.Sel {
		wantHeader = append(wantHeader, s.Storage())
	}
	if strings.Join(header, ",") != strings.Join(wantHeader, ",") {
		return fmt.Sprintf("header %q, want %q", header, wantHeader)
	}
	limit := -1
	if q.Limit != nil {
		limit = *q.Limit
	}
	wantRows := len(groups)
	if limit >= 0 && limit < wantRows {
		wantRows = limit
	}
	if len(rows) != wantRows {
		return fmt.Sprintf("%d rows, want %d (groups %d, limit %d)", len(rows), wantRows, len(groups), limit)
	}
	for _, r := range rows {
		if len(r) != len(q.Sel) {
			return fmt.Sprintf("row %q has %d cells, want %d", r, len(r), len(q.Sel))
		}
	}
	// match rows to groups: every observed row must be explained by a
	// distinct reference group (bipartite matching, greedy with backtracking
	// over small candidate sets).
	type cand struct{ keys []string }
	keys := make([]string, 0, len(groups))
	for k := range groups {
		keys = append(keys, k)
	}
	sort.Strings(keys)
	exp := map[string][]Expect{}
	for _, k := range keys {
		exp[k] = q.ExpectRow(groups[k])
	}
	cands := make([][]int, len(rows))
	for ri, r := range rows {
		for ki, k := range keys {
			ok := true
			for ci, cell := range r {
				if !CellOK(exp[k][ci], cell) {
					ok = false
					break
				}
			}
			if ok {
				cands[ri] = append(cands[ri], ki)
			}
		}
		if len(cands[ri]) == 0 {
			return fmt.Sprintf("row %q matches no reference group", r)
		}
	}
	// Kuhn's algorithm
	matchOfKey := make([]int, len(keys))
	for i := range matchOfKey {
		matchOfKey[i] = -1
	}
	var try func(ri int, seen []bool) bool
	try = func(ri int, seen []bool) bool {
		for _, ki := range cands[ri] {
			if seen[ki] {
				continue
			}
			seen[ki] = true
			if matchOfKey[ki] == -1 || try(matchOfKey[ki], seen) {
				matchOfKey[ki] = ri
				return true
			}
		}
		return false
	}
	for ri := range rows {
		if !try(ri, make([]bool, len(keys))) {
			return fmt.Sprintf("row %q cannot be assigned to a distinct reference group (duplicate or wrong row)", rows[ri])
		}
	}
	if q.OrderBy != "" {
		// monotone order
		for i := 1; i < len(rows); i++ {
			a, b := q.OrderValue(rows[i-1]), q.OrderValue(rows[i])
			if q.Reverse && a > b && !FloatClose(a, b) {
				return fmt.Sprintf("rorder by %s: row %d (%v) > row %d (%v)", q.OrderBy, i-1, a, i, b)
			}
			if !q.Reverse && a < b && !FloatClose(a, b) {
				return fmt.Sprintf("order by %s: row %d (%v) < row %d (%v)", q.OrderBy, i-1, a, i, b)
			}
		}
		// with a limit the rows must be the top ones: the order values of the
		// output must equal the best wantRows reference order values, when
		// those are determined (float columns).
		if wantRows < len(groups) {
			oi := -1
			for i, s := range q.Sel {
				if s.Storage() == q.OrderBy {
					oi = i
				}
			}
			determined := true
			var ref []float64
			for _, k := range keys {
				e := exp[k][oi]
				if e.Kind != "float" {
					determined = false
					break
				}
				ref = append(ref, e.F)
			}
			if determined {
				if q.Reverse {
					sort.Float64s(ref)
				} else {
					sort.Sort(sort.Reverse(sort.Float64Slice(ref)))
				}
				for i := 0; i < wantRows; i++ {
					if !FloatClose(q.OrderValue(rows[i]), ref[i]) {
						return fmt.Sprintf("limit %d with (r)order by %s: row %d has order value %v, reference's %d-th best is %v",
							limit, q.OrderBy, i, q.OrderValue(rows[i]), i, ref[i])
					}
				}
			}
		}
	}
	return ""
}

// ParseCSV splits a result CSV into header and rows.
func ParseCSV(body string) (header []string, rows [][]string) {
	lines := strings.Split(strings.TrimSuffix(body, "\n"), "\n")
	if len(lines) == 0 || body == "" {
		return nil, nil
	}
	header = strings.Split(lines[0], ",")
	for _, l := range lines[1:] {
		rows = append(rows, strings.Split(l, ","))
	}
	return
}
