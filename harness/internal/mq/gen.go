package mq

import (
	"fmt"
	"math/rand"
	"strings"
)

// Table is a generated data set.
type Table struct {
	Format    string   `json:"format"` // default | generickv | csv | generic
	Name      string   `json:"name"`   // mapreduce table name (default format)
	CSVHeader []string `json:"csv_header,omitempty"`
	Lines     []string `json:"lines"`
	// field catalogue for the query generator
	GroupFields []string            `json:"-"`
	NumFields   []string            `json:"-"`
	StrFields   []string            `json:"-"`
	Values      map[string][]string `json:"-"`
}

var niceNums = []string{"0", "1", "2", "3", "7", "10", "42", "100", "-1", "-5", "-17", "0.5", "0.25", "-0.75", "1.5", "2.125",
	"1e3", "1E2", "-2e1", "3.14", "0.1", "0.2", "-0.3", "1000000", "0.000001", "+4", "007", "5.", ".5"}
var junkNums = []string{"", "n/a", "-", "12ms", "1;5", "0x10", "abc", "1.2.3", "--1"}

func pick(rng *rand.Rand, ss []string) string { return ss[rng.Intn(len(ss))] }

// GenTable generates a table. zeroBias makes zero values frequent (partials
// aggregating to exactly 0 are a classic merge pitfall).
func GenTable(rng *rand.Rand, format string, maxLines int) *Table {
	t := &Table{Format: format, Values: map[string][]string{}}
	nLines := 0
	switch rng.Intn(6) {
	case 0:
		nLines = rng.Intn(3)
	case 1:
		nLines = 1 + rng.Intn(8)
	default:
		nLines = rng.Intn(maxLines + 1)
	}
	// (values of two fields whose concatenations coincide: h1+200 = h12+00)
	hosts := []string{"h1", "h12", "h2", "h3"}[:1+rng.Intn(4)]
	statuses := []string{"200", "00", "404", "2200"}[:1+rng.Intn(4)]
	users := []string{"alice", "u  2", "bob", "Oct  4 x", "carol", "dave", "eve9", "u 1"}[:1+rng.Intn(8)]
	paths := []string{"/", "/login", "/api/v1/items", "/api/v2", "/a-b_c", "select", "from", "/x?y=1"}
	type fdef struct {
		name string
		gen  func() string
		kind string
		miss float64
	}
	numGen := func(zeroBias float64, junk float64) func() string {
		return func() string {
			x := rng.Float64()
			if x < zeroBias {
				return pick(rng, []string{"0", "0.0", "-0", "0e0"})
			}
			if x < zeroBias+junk {
				return pick(rng, junkNums)
			}
			if rng.Intn(3) == 0 {
				return fmt.Sprint(rng.Intn(2000) - 1000)
			}
			if rng.Intn(4) == 0 {
				return fmt.Sprintf("%d.%03d", rng.Intn(200)-100, rng.Intn(1000))
			}
			return pick(rng, niceNums)
		}
	}
	zb := []float64{0, 0, 0.15, 0.5}[rng.Intn(4)]
	jk := []float64{0, 0, 0.1, 0.3}[rng.Intn(4)]
	defs := []fdef{
		{"host", func() string { return pick(rng, hosts) }, "group", 0.02},
		{"status", func() string { return pick(rng, statuses) }, "group", 0.05},
		{"user", func() string { return pick(rng, users) }, "group", 0.1},
		{"lat", numGen(zb, jk), "num", 0.1},
		{"bytes", func() string { return fmt.Sprint(rng.Intn(5000)) }, "num", 0.05},
		{"delta", numGen(0.3, 0), "num", 0.2},
		{"path", func() string { return pick(rng, paths) }, "str", 0.1},
		{"id", func() string { return fmt.Sprintf("req-%04d-%c", rng.Intn(10000), 'a'+rune(rng.Intn(26))) }, "str", 0.1},
	}
	if format == "generickv" && rng.Intn(2) == 0 {
		// fields whose names look like keywords / aggregations (need back-quotes)
		// (every clause keyword in turn, in varying case: a back-quoted name is a name, wherever it stands and whichever
		// clauses the query has)
		kw := []string{"limit", "from", "group", "order", "rorder", "where", "set", "select", "interval", "outfile", "logformat", "Group", "ORDER", "Limit"}
		k1, k2 := kw[rng.Intn(len(kw))], kw[rng.Intn(len(kw))]
		if strings.EqualFold(k1, k2) {
			k2 = "from"
			if strings.EqualFold(k1, k2) {
				k2 = "limit"
			}
		}
		defs = append(defs,
			fdef{k1, func() string { return fmt.Sprint(rng.Intn(5)) }, "group", 0.1},
			fdef{k2, func() string { return pick(rng, []string{"de", "us", "uk"}) }, "group", 0.1},
			fdef{"count(lat)", func() string { return fmt.Sprint(rng.Intn(9)) }, "str", 0.2})
	}
	for _, d := range defs {
		switch d.kind {
		case "group":
			t.GroupFields = append(t.GroupFields, d.name)
		case "num":
			t.NumFields = append(t.NumFields, d.name)
		case "str":
			t.StrFields = append(t.StrFields, d.name)
		}
	}
	note := func(name, v string) {
		vs := t.Values[name]
		if len(vs) < 40 {
			t.Values[name] = append(vs, v)
		}
	}
	tables := []string{"STATS", "WEB", "APP2"}
	t.Name = pick(rng, tables)
	// lines of other tables in the same file, among them tables whose name
	// begins with (or is the beginning of) this table's name
	other := pick(rng, []string{pick(rng, tables), t.Name + "X", t.Name + "2", t.Name[:len(t.Name)-1]})
	switch format {
	case "default":
		for i := 0; i < nLines; i++ {
			tm := fmt.Sprintf("202110%02d-%02d%02d%02d", 1+rng.Intn(3), rng.Intn(3), rng.Intn(60), rng.Intn(60))
			if rng.Intn(5) == 0 {
				tm = fmt.Sprintf("10%02d-%02d%02d%02d", 1+rng.Intn(3), rng.Intn(24), rng.Intn(60), rng.Intn(60))
			}
			sev := "INFO"
			name := t.Name
			switch rng.Intn(12) {
			case 0:
				sev = "WARN"
			case 1, 2:
				name = other
			}
			parts := []string{sev, tm, fmt.Sprint(100 + rng.Intn(3)), "main.go:" + fmt.Sprint(rng.Intn(90)),
				"8", fmt.Sprint(10 + rng.Intn(5)), "7", "0.21", "471h0m21s", "MAPREDUCE:" + name}
			nkv := 0
			only := -1
			if rng.Intn(10) == 0 {
				only = rng.Intn(len(defs)) // a line with exactly one key=value pair
			}
			for di, d := range defs {
				if (only >= 0 && di != only) || (only < 0 && rng.Float64() < d.miss) {
					continue
				}
				v := d.gen()
				parts = append(parts, d.name+"="+v)
				note(d.name, v)
				nkv++
			}
			if nkv == 0 {
				parts = append(parts, "k=v")
			}
			if rng.Intn(25) == 0 {
				parts = append(parts, "brokentoken") // kv without '=': line is not usable
			}
			t.Lines = append(t.Lines, strings.Join(parts, "|"))
		}
		t.GroupFields = append(t.GroupFields, "$date", "$hour", "$pid")
		t.StrFields = append(t.StrFields, "$time", "$caller", "$line")
		t.NumFields = append(t.NumFields, "$goroutines", "$pid")
	case "generickv":
		for i := 0; i < nLines; i++ {
			var parts []string
			for _, d := range defs {
				if rng.Float64() < d.miss {
					continue
				}
				v := d.gen()
				parts = append(parts, d.name+"="+v)
				note(d.name, v)
			}
			if rng.Intn(10) == 0 {
				parts = append(parts, "free text token")
			}
			if len(parts) == 0 {
				parts = append(parts, "k=v")
			}
			rng.Shuffle(len(parts), func(a, b int) { parts[a], parts[b] = parts[b], parts[a] })
			t.Lines = append(t.Lines, strings.Join(parts, "|"))
		}
		t.StrFields = append(t.StrFields, "$line")
	case "csv":
		for _, d := range defs {
			t.CSVHeader = append(t.CSVHeader, d.name)
		}
		rng.Shuffle(len(t.CSVHeader), func(a, b int) { t.CSVHeader[a], t.CSVHeader[b] = t.CSVHeader[b], t.CSVHeader[a] })
		byName := map[string]fdef{}
		for _, d := range defs {
			byName[d.name] = d
		}
		for i := 0; i < nLines; i++ {
			var vals []string
			n := len(t.CSVHeader)
			if rng.Intn(8) == 0 {
				n = 1 + rng.Intn(n) // short row: trailing fields missing
			}
			for _, h := range t.CSVHeader[:n] {
				v := strings.ReplaceAll(byName[h].gen(), ",", ";")
				vals = append(vals, v)
				note(h, v)
			}
			if rng.Intn(30) == 0 {
				vals = append(vals, "extra", "cells") // more cells than header: unusable row
			}
			if len(vals) == 1 && vals[0] == "" {
				vals[0] = "x"
			}
			t.Lines = append(t.Lines, strings.Join(vals, ","))
		}
		t.StrFields = append(t.StrFields, "$line")
	case "generic":
		for i := 0; i < nLines; i++ {
			t.Lines = append(t.Lines, fmt.Sprintf("some log line %d %s", rng.Intn(5), pick(rng, users)))
		}
		t.GroupFields = []string{"$line", "$empty"}
		t.NumFields = nil
		t.StrFields = []string{"$line"}
	}
	return t
}

// strings used as quoted literals: spaces, commas, keywords, case variants.
var quotedPool = []string{"select", "FROM", "limit", "Group", "order by x", "a,b", "x  y", " lead", "trail ", "and", "=", "==",
	"outfile", "append", "it's", "(x)", "count(x)", "$var", "ümlaut", "200", "/login"}

// GenQuery generates a valid query over the table's fields.
func GenQuery(rng *rand.Rand, t *Table) *Query {
	q := &Query{}
	allFields := append(append(append([]string{}, t.GroupFields...), t.NumFields...), t.StrFields...)
	anyField := func() string { return pick(rng, allFields) }
	numField := func() string {
		if len(t.NumFields) == 0 {
			return anyField()
		}
		return pick(rng, t.NumFields)
	}
	groupField := func() string {
		if len(t.GroupFields) == 0 {
			return anyField()
		}
		return pick(rng, t.GroupFields)
	}

	// set clause first (its variables may be used by select/group by)
	var setVars []string
	if t.Format != "generic" && rng.Intn(3) == 0 {
		n := 1 + rng.Intn(2)
		for i := 0; i < n; i++ {
			s := Set{L: fmt.Sprintf("$v%d", i)}
			switch rng.Intn(6) {
			case 0:
				s.Kind, s.R = "field", anyField()
			case 1:
				s.Kind, s.R = "number", pick(rng, []string{"42", "0", "-1", "3.5"})
			case 2:
				s.Kind, s.R = "string", pick(rng, []string{"const", "two words", "a;b", "Limit!", "X"})
			case 3:
				s.Kind, s.R, s.Funcs = "func", anyField(), []string{"maskdigits"}
			case 4:
				s.Kind, s.R, s.Funcs = "func", anyField(), []string{"md5sum", "maskdigits"}
				if rng.Intn(2) == 0 {
					s.Funcs = []string{"md5sum"}
				}
			case 5:
				s.Kind, s.R = "field", groupField()
			}
			if s.R == "$line" {
				s.R = "$empty" // a whole line would break the CSV cell
			}
			if strings.Contains(s.R, "(") && s.Kind == "field" {
				s.Kind = "bqfield"
			}
			if (isKeyword(s.R) || strings.ContainsAny(s.R, "()")) && (s.Kind == "field" || s.Kind == "func") {
				s.Kind, s.Funcs = "bqfield", nil
			}
			q.Set = append(q.Set, s)
			setVars = append(setVars, s.L)
		}
	}

	// select list
	nSel := 1 + rng.Intn(4)
	seen := map[string]bool{}
	for len(q.Sel) < nSel {
		var s Sel
		switch rng.Intn(10) {
		case 0, 1:
			s = Sel{Agg: "count", Field: anyField()}
		case 2:
			s = Sel{Agg: "sum", Field: numField()}
		case 3:
			s = Sel{Agg: "min", Field: numField()}
		case 4:
			s = Sel{Agg: "max", Field: numField()}
		case 5:
			s = Sel{Agg: "avg", Field: numField()}
		case 6:
			s = Sel{Agg: "last", Field: anyField()}
		case 7:
			s = Sel{Agg: "len", Field: anyField()}
		case 8:
			s = Sel{Agg: "", Field: groupField()}
		case 9:
			if len(setVars) > 0 {
				s = Sel{Agg: pick(rng, []string{"", "last", "count"}), Field: pick(rng, setVars)}
			} else {
				s = Sel{Agg: "count", Field: "$line"}
			}
		}
		if s.Field == "$line" && (s.Agg == "" || s.Agg == "last") {
			s.Agg = "count" // a whole line as a CSV cell would break the CSV
		}
		if strings.ContainsAny(s.Field, "()") || isKeyword(s.Field) {
			// needs back-quotes and is then taken literally
			s = Sel{Field: s.Field, Backquoted: true}
		}
		if seen[s.Storage()] {
			continue
		}
		seen[s.Storage()] = true
		q.Sel = append(q.Sel, s)
	}

	// table / logformat
	switch t.Format {
	case "default":
		q.Table = pick(rng, []string{t.Name, strings.ToLower(t.Name), strings.Title(strings.ToLower(t.Name))})
		if rng.Intn(4) == 0 {
			q.LogFormat = "default"
		}
	case "generickv", "csv":
		q.LogFormat = t.Format
	}

	// where
	if t.Format != "generic" {
		nW := []int{0, 0, 1, 1, 2, 3}[rng.Intn(6)]
		for i := 0; i < nW; i++ {
			var w Where
			if rng.Intn(2) == 0 && len(t.NumFields) > 0 {
				f := numField()
				w.L = Operand{"field", f}
				w.Op = pick(rng, floatOps)
				if rng.Intn(5) == 0 {
					w.R = Operand{"field", numField()}
				} else {
					lit := pick(rng, niceNums[:24])
					if vs := t.Values[f]; len(vs) > 0 && rng.Intn(2) == 0 {
						if _, ok := num(vs[0]); ok {
							lit = vs[rng.Intn(len(vs))]
							if _, ok := num(lit); !ok {
								lit = "0"
							}
						}
					}
					w.R = Operand{"number", lit}
				}
				if rng.Intn(6) == 0 {
					w.L, w.R = w.R, w.L
				}
			} else {
				f := anyField()
				if f == "$line" {
					f = groupField()
				}
				w.L = Operand{"field", f}
				w.Op = pick(rng, stringOps)
				switch rng.Intn(6) {
				case 0:
					w.R = Operand{"field", anyField()}
				case 1:
					w.R = Operand{"string", pick(rng, quotedPool)}
				default:
					lit := pick(rng, quotedPool)
					if vs := t.Values[f]; len(vs) > 0 {
						lit = vs[rng.Intn(len(vs))]
						// prefer values in which a run of blanks matters
						for _, v := range vs {
							if strings.Contains(v, "  ") && rng.Intn(2) == 0 {
								lit = v
							}
						}
						if len(lit) > 2 && rng.Intn(2) == 0 {
							a := rng.Intn(len(lit))
							b := a + 1 + rng.Intn(len(lit)-a)
							lit = lit[a:b]
						}
					}
					if lit == "" {
						lit = "x"
					}
					w.R = Operand{"string", lit}
				}
				if rng.Intn(8) == 0 {
					w.L, w.R = w.R, w.L
				}
			}
			// operands which need back-quotes cannot be written as barewords: skip
			bad := false
			for _, o := range []Operand{w.L, w.R} {
				if o.Kind == "field" && (isKeyword(o.Text) || strings.ContainsAny(o.Text, "() ")) {
					bad = true
				}
				if o.Kind == "string" && strings.Contains(o.Text, "\"") {
					bad = true
				}
			}
			if !bad {
				q.Where = append(q.Where, w)
			}
		}
	}

	// group by
	nG := []int{0, 1, 1, 2, 3}[rng.Intn(5)]
	for i := 0; i < nG; i++ {
		g := groupField()
		if len(setVars) > 0 && rng.Intn(4) == 0 {
			g = pick(rng, setVars)
		}
		if strings.ContainsAny(g, "()") {
			continue
		}
		dup := false
		for _, x := range q.GroupBy {
			if x == g {
				dup = true
			}
		}
		if !dup {
			q.GroupBy = append(q.GroupBy, g)
		}
	}

	// order
	if rng.Intn(2) == 0 {
		q.OrderBy = q.Sel[rng.Intn(len(q.Sel))].Storage()
		q.Reverse = rng.Intn(2) == 0
	}
	if rng.Intn(3) == 0 {
		v := []int{0, 1, 2, 3, 5, 1000}[rng.Intn(6)]
		q.Limit = &v
	}
	if rng.Intn(4) == 0 {
		v := []int{1, 2, 5, 60, 3600}[rng.Intn(5)]
		q.Interval = &v
	}
	return q
}

// UsesHostname reports whether the result depends on which server holds a line.
func (q *Query) UsesHostname() bool {
	has := func(s string) bool { return s == "$hostname" || s == "$server" }
	for _, s := range q.Sel {
		if has(s.Field) {
			return true
		}
	}
	for _, g := range q.EffectiveGroupBy() {
		if has(g) {
			return true
		}
	}
	for _, w := range q.Where {
		if has(w.L.Text) && w.L.Kind == "field" || has(w.R.Text) && w.R.Kind == "field" {
			return true
		}
	}
	for _, s := range q.Set {
		if has(s.R) {
			return true
		}
	}
	return false
}
