// Package dt initialises the dtail packages for in-process use by the
// harness workers (the same steps the dtail mains do).
package dt

import (
	"context"
	"os"
	"sync"

	"github.com/mimecast/dtail/internal/config"
	"github.com/mimecast/dtail/internal/io/dlog"
	"github.com/mimecast/dtail/internal/server"
	"github.com/mimecast/dtail/internal/source"
)

var once sync.Once

// Init sets up config and logging like a dtail main does. logger is "none"
// or "stdout"; cfgFile may be "none".
func Init(src source.Source, cfgFile, logger, logLevel string, noColor bool) {
	once.Do(func() {
		args := config.Args{
			ConfigFile: cfgFile,
			Logger:     logger,
			LogLevel:   logLevel,
			NoColor:    noColor,
			SSHPort:    config.DefaultSSHPort,
		}
		config.Setup(src, &args, nil)
		var wg sync.WaitGroup
		wg.Add(1)
		dlog.Start(context.Background(), &wg, src)
	})
}

// ServerMain is cmd/dserver's main without the root check.
func ServerMain(cfgFile string, port int, logLevel, logger string) {
	args := config.Args{
		ConfigFile: cfgFile,
		Logger:     logger,
		LogLevel:   logLevel,
		NoColor:    true,
		SSHPort:    port,
	}
	config.Setup(source.Server, &args, nil)
	ctx, cancel := context.WithCancel(context.Background())
	var wg sync.WaitGroup
	wg.Add(1)
	dlog.Start(ctx, &wg, source.Server)
	serv := server.New()
	status := serv.Start(ctx)
	cancel()
	wg.Wait()
	os.Exit(status)
}
