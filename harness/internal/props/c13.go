package props

import (
	"bufio"
	"bytes"
	"encoding/json"
	"fmt"
	"io"
	"math/rand"
	"os"
	"path/filepath"
	"sort"
	"strings"
	"sync"
	"time"

	"github.com/mimecast/dtail/verifharness/internal/vlib"
	"golang.org/x/crypto/ssh"
)

// C13 — concurrent file reads never exceed the configured limits.

func init() {
	Drivers["C13"] = c13
}

type hookEvent struct {
	Seq  uint64   `json:"seq"`
	Pid  int      `json:"pid"`
	T    int64    `json:"t"`
	Name string   `json:"name"`
	Hit  int      `json:"hit"`
	KV   []string `json:"kv"`
}

func readTrace(path string) []hookEvent {
	fd, err := os.Open(path)
	if err != nil {
		return nil
	}
	defer fd.Close()
	var out []hookEvent
	sc := bufio.NewScanner(fd)
	sc.Buffer(make([]byte, 1<<20), 1<<26)
	for sc.Scan() {
		var e hookEvent
		if json.Unmarshal(sc.Bytes(), &e) == nil {
			out = append(out, e)
		}
	}
	return out
}

type c13Session struct {
	id     int
	mode   string // cat | grep | tail
	file   string
	client *ssh.Client
	out    io.Reader
	in     io.WriteCloser
	live   bool
}

// c13BackgroundJobs: the server's own continuous mapreduce jobs (no Servers, no
// Discovery: they concern the local server) follow files, too, and count
// against the tail limit like any other follow. Tail limit 1, two jobs with a
// file each, plus a client follow on a third file: never more than one of the
// three files is open in the server process.
func c13BackgroundJobs(r *vlib.Run) {
	key := clientKey()
	name := "c13jobs"
	srvDir := r.Dir("srv-" + name)
	dataDir := filepath.Join(srvDir, "data")
	os.MkdirAll(dataDir, 0755)
	realData, _ := filepath.EvalSymlinks(dataDir)
	line := func(k int) string {
		return fmt.Sprintf("INFO|1002-071209|1|m.go:1|8|14|7|0.21|471h|MAPREDUCE:JOBS|foo=%d|bar=42\n", k)
	}
	files := []string{filepath.Join(realData, "tail-ja.log"), filepath.Join(realData, "tail-jb.log"), filepath.Join(realData, "tail-client.log")}
	for _, f := range files {
		os.WriteFile(f, []byte(line(0)), 0644)
	}
	job := func(n, file string) map[string]interface{} {
		return map[string]interface{}{"Name": n, "Enable": true, "AllowFrom": []string{"localhost", "127.0.0.1"}, "Files": file,
			"Query": "from JOBS select count($line),max(foo) group by $hostname interval 1", "Outfile": filepath.Join(srvDir, n+".csv")}
	}
	// a scheduled job of the server (a mapreduce over six files of 400 KB each (about half a second of reading per file), started 2 s after the server): its reads
	// are cat-limited reads like anybody's
	{
		var sb bytes.Buffer
		for k := 0; sb.Len() < 3<<17; k++ {
			sb.WriteString(line(k))
		}
		for k := 0; k < 6; k++ {
			os.WriteFile(filepath.Join(realData, fmt.Sprintf("sched-%d.log", k)), sb.Bytes(), 0644)
		}
	}
	sched := job("sched-a", filepath.Join(realData, "sched-*.log"))
	sched["TimeRange"] = []int{0, 24}
	schedOut := sched["Outfile"].(string)
	spec := &vlib.ServerSpec{Name: name, Dir: srvDir, LogLevel: "error",
		Server: map[string]interface{}{"MaxConnections": 50, "MaxConcurrentCats": 2, "MaxConcurrentTails": 1,
			"Schedule":   []interface{}{sched},
			"Continuous": []interface{}{job("follow-a", files[0]), job("follow-b", files[1])}},
		Users: map[string][]string{"tester": {key.AuthKey}}}
	srv, err := r.StartServer(spec)
	if err != nil {
		r.Inconclusive("server-start")
		return
	}
	defer srv.Stop()
	stop := make(chan struct{})
	var wg sync.WaitGroup
	wg.Add(1)
	go func() { // writers keep all three files growing
		defer wg.Done()
		for k := 1; ; k++ {
			select {
			case <-stop:
				return
			case <-time.After(50 * time.Millisecond):
			}
			for _, f := range files {
				if fd, err := os.OpenFile(f, os.O_APPEND|os.O_WRONLY, 0644); err == nil {
					fd.WriteString(line(k))
					fd.Close()
				}
			}
		}
	}()
	maxOpen, samples, everOpen := 0, 0, map[string]bool{}
	maxSched, schedSeen := 0, map[string]bool{}
	var worstSched []string
	var worst []string
	var client *ssh.Client
	deadline := time.Now().Add(9 * time.Second)
	for time.Now().Before(deadline) {
		if client == nil && samples > 300 {
			// a client follow on the third file joins in
			if c, _, _, in, err := trySession(srv.Addr(), "tester", []ssh.AuthMethod{ssh.PublicKeys(key.Signer)}, ""); err == nil {
				client = c
				io.WriteString(in, encodeCommand("tail:plain=true "+files[2]+" regex:noop "))
			}
		}
		open := distinctStrings(vlib.OpenFilesUnder(srv.D.Pid(), realData))
		n, ns := 0, 0
		for _, f := range open {
			if strings.Contains(f, "/tail-") {
				n++
				everOpen[filepath.Base(f)] = true
			}
			if strings.Contains(f, "/sched-") {
				ns++
				schedSeen[filepath.Base(f)] = true
			}
		}
		if ns > maxSched {
			maxSched, worstSched = ns, open
		}
		if n > maxOpen {
			maxOpen, worst = n, open
		}
		samples++
		time.Sleep(5 * time.Millisecond)
	}
	if client != nil {
		client.Close()
	}
	close(stop)
	wg.Wait()
	r.Eval("background-jobs")
	r.Count("background_job_samples", samples)
	r.Max("background_job_files_open_at_once_max", maxOpen)
	r.Max("scheduled_job_files_open_at_once_max", maxSched)
	r.Count("scheduled_job_files_seen_open", len(schedSeen))
	if _, err := os.Stat(schedOut); err == nil {
		r.Count("scheduled_job_results_written", 1)
	}
	if maxSched > 2 {
		r.Violation("more-files-read-than-the-limit", map[string]interface{}{"scenario": "scheduled mapreduce job of the server itself over six files, MaxConcurrentCats=2",
			"files_open_at_once": maxSched, "open_files": worstSched})
	}
	if len(everOpen) == 0 {
		r.Inconclusive("background-jobs-never-opened-a-file")
		return
	}
	if maxOpen > 1 {
		r.Violation("more-files-read-than-the-limit", map[string]interface{}{"scenario": "two continuous jobs of the server itself and a client follow, MaxConcurrentTails=1",
			"files_open_at_once": maxOpen, "open_files": worst})
	}
}

// c13Serverless: the limits also hold for a client that works without a server
// (the same handlers run inside the client process, the limits come from its
// configuration). dcat over six large files with a consumer that does not read:
// at most MaxConcurrentCats files open in the client process, and exactly that
// many once things have settled; dtail over five files: MaxConcurrentTails.
func c13Serverless(r *vlib.Run) {
	dir, _ := filepath.EvalSymlinks(r.Dir("c13serverless"))
	cfg := filepath.Join(dir, "limits.json")
	os.WriteFile(cfg, []byte(`{"Server":{"MaxConcurrentCats":2,"MaxConcurrentTails":3}}`), 0644)
	var big bytes.Buffer
	for k := 0; k < 40000; k++ {
		fmt.Fprintf(&big, "%07d serverless limit line the quick brown fox jumps over the lazy dog 0123456789\n", k)
	}
	for _, mode := range []string{"cat", "tail"} {
		n, limit, bin := 6, 2, "dcat"
		if mode == "tail" {
			n, limit, bin = 5, 3, "dtail"
		}
		sub := filepath.Join(dir, mode)
		os.MkdirAll(sub, 0755)
		for k := 0; k < n; k++ {
			os.WriteFile(filepath.Join(sub, fmt.Sprintf("%s-%d.log", mode, k)), big.Bytes(), 0644)
		}
		home := serverlessHome(r)
		args := []string{"--cfg", cfg, "--logger", "stdout", "--logLevel", "error", "--plain", "--files", filepath.Join(sub, "*.log")}
		if mode == "tail" {
			args = append(args, "--shutdownAfter", "5")
		}
		maxOpen, atRest, samples := 0, -1, 0
		var worst []string
		stop := make(chan struct{})
		var wg sync.WaitGroup
		onPid := func(pid int) {
			wg.Add(1)
			go func() {
				defer wg.Done()
				stable, last := 0, -1
				for {
					select {
					case <-stop:
						return
					default:
					}
					open := distinctStrings(vlib.OpenFilesUnder(pid, sub))
					samples++
					if len(open) > maxOpen {
						maxOpen, worst = len(open), open
					}
					if len(open) == last {
						stable++
						if stable == 40 { // unchanged for 200 ms
							atRest = len(open)
						}
					} else {
						stable, last = 0, len(open)
					}
					time.Sleep(5 * time.Millisecond)
				}
			}()
		}
		res, _ := runPacedPid(vlib.Cmd{Path: r.Bin(bin), Args: args, Env: []string{"HOME=" + home}, Dir: home, Watchdog: 120 * time.Second},
			pacing{Kind: "stall", StallAt: 0, StallS: 2.5}, 4096, onPid)
		close(stop)
		wg.Wait()
		os.RemoveAll(sub)
		r.Eval("serverless|" + mode)
		r.Count("serverless_limit_runs", 1)
		r.Count("serverless_limit_samples", samples)
		if res.TimedOut {
			r.Inconclusive("serverless-client-watchdog")
			continue
		}
		detail := map[string]interface{}{"mode": mode, "files": n, "limit": limit, "open_at_once_max": maxOpen, "open_when_settled": atRest, "open_files": worst}
		switch {
		case maxOpen > limit:
			r.Violation("more-files-read-than-the-limit", detail)
		case atRest >= 0 && atRest != limit && mode == "cat":
			// (a follow may be over before things settle; cat readers are held by the stalled consumer)
			r.Violation("reads-in-progress-differ-from-min(limit,live)", detail)
		case mode == "tail" && maxOpen < limit:
			r.Violation("reads-in-progress-differ-from-min(limit,live)", detail)
		}
	}
}

func distinctStrings(ss []string) []string {
	seen := map[string]bool{}
	var out []string
	for _, x := range ss {
		if !seen[x] {
			seen[x] = true
			out = append(out, x)
		}
	}
	return out
}

func c13(r *vlib.Run) int {
	c13Serverless(r)
	c13BackgroundJobs(r)
	min := c13Body(r)
	if r.Tier == "thorough" || os.Getenv("VERIF_FORCE_RACE") != "" {
		// secondary monitor: the same workload (reduced) against -race builds
		r.RacePass([]string{"handlers.(*readCommand).read"}, func() { c13Body(r) })
	}
	return min
}

func c13Body(r *vlib.Run) int {
	r.Rule("histories against a server with cat limit L in {1,2,3} and tail limit in {1,2}: {open a cat/grep session on its own 8 MB file " +
		"whose output is not read (holds its slot under back-pressure), open a follow session, drain a session to completion, cancel a " +
		"session by closing the connection while it runs or while it waits, burst of k opens}, two users. Hook-free observation: the set " +
		"of test files the server process holds open (/proc/<pid>/fd), sampled every 5 ms: never more than the limit; at quiescence " +
		"exactly min(limit, live unfinished sessions). Online monitor over the hook trace: holders = acquisitions - releases stays in " +
		"[0, limit] at every event and every release belongs to a read which acquired. distinct = distinct histories; non-trivial = " +
		"history with at least one waiting session.")
	r.Assume("a cat/grep reader keeps its file open while blocked on back-pressure; a session's reader opens its file only after acquiring a slot")
	nHist := r.N(24, 400)
	rng := r.Rng("hist")
	seeds := make([]int64, nHist)
	for i := range seeds {
		seeds[i] = rng.Int63()
	}
	// one big file, hard-linked per session
	big := filepath.Join(r.Dir("c13data"), "big.log")
	{
		fd, _ := os.Create(big)
		w := bufio.NewWriter(fd)
		for i := 0; w.Buffered() >= 0 && i < 130000; i++ {
			fmt.Fprintf(w, "%07d the quick brown fox jumps over the lazy dog 0123456789 abcdefghij\n", i)
		}
		w.Flush()
		fd.Close()
	}
	key := clientKey()
	key2, _ := vlib.GenKey("ed25519")
	vlib.Parallel(nHist, 6, func(hi int) {
		hrng := rand.New(rand.NewSource(seeds[hi]))
		catL := 1 + hrng.Intn(3)
		tailL := 1 + hrng.Intn(2)
		name := fmt.Sprintf("c13h%d", hi)
		srvDir := r.Dir("srv-" + name)
		trace := filepath.Join(srvDir, "trace.jsonl")
		spec := &vlib.ServerSpec{
			Name:     name,
			Dir:      srvDir,
			Server:   map[string]interface{}{"MaxConnections": 100, "MaxConcurrentCats": catL, "MaxConcurrentTails": tailL},
			LogLevel: "error",
			Users:    map[string][]string{"tester": {key.AuthKey}, "other": {key2.AuthKey}},
			Env:      []string{"VERIF_TRACE=" + trace},
		}
		srv, err := r.StartServer(spec)
		if err != nil {
			r.Inconclusive("server-start")
			return
		}
		defer srv.Stop()
		dataDir := filepath.Join(srvDir, "data")
		os.MkdirAll(dataDir, 0755)
		realData, _ := filepath.EvalSymlinks(dataDir)

		var hist []string
		var sessions []*c13Session
		nextID := 0
		// continuous sampler
		var smu sync.Mutex
		maxCat, maxTail, samples := 0, 0, 0
		var overLimit string
		stopSampler := make(chan struct{})
		count := func() (int, int, []string) {
			// distinct files: the follower's periodic truncation check opens the
			// path a second time for an instant
			files := distinctStrings(vlib.OpenFilesUnder(srv.D.Pid(), realData))
			c, t := 0, 0
			for _, f := range files {
				if strings.Contains(f, "/cat-") {
					c++
				} else if strings.Contains(f, "/tail-") {
					t++
				}
			}
			return c, t, files
		}
		go func() {
			for {
				select {
				case <-stopSampler:
					return
				default:
				}
				c, t, files := count()
				smu.Lock()
				samples++
				if c > maxCat {
					maxCat = c
				}
				if t > maxTail {
					maxTail = t
				}
				if (c > catL || t > tailL) && overLimit == "" {
					overLimit = fmt.Sprintf("cat files open %d (limit %d), tail files open %d (limit %d): %v", c, catL, t, tailL, files)
				}
				smu.Unlock()
				time.Sleep(5 * time.Millisecond)
			}
		}()
		defer close(stopSampler)

		fail := func(what string, d map[string]interface{}) {
			d["cat_limit"], d["tail_limit"], d["history"] = catL, tailL, hist
			r.Violation(what, d)
		}
		liveCount := func(kind string) int {
			n := 0
			for _, s := range sessions {
				if s.live && (kind == "tail") == (s.mode == "tail") {
					n++
				}
			}
			return n
		}
		quiesce := func() bool {
			// fd set unchanged over 6 consecutive polls and equal to the expectation;
			// the expectation must be reached within a generous time.
			deadline := time.Now().Add(20 * time.Second)
			stable := 0
			lastC, lastT := -1, -1
			for {
				c, t, files := count()
				wantC, wantT := liveCount("cat"), liveCount("tail")
				if wantC > catL {
					wantC = catL
				}
				if wantT > tailL {
					wantT = tailL
				}
				if c == lastC && t == lastT && c == wantC && t == wantT {
					stable++
					if stable >= 6 {
						return true
					}
				} else {
					stable = 0
				}
				lastC, lastT = c, t
				if time.Now().After(deadline) {
					fail("reads-in-progress-differ-from-min(limit,live)", map[string]interface{}{"cat_open": c, "tail_open": t,
						"want_cat": wantC, "want_tail": wantT, "open_files": files})
					return false
				}
				time.Sleep(25 * time.Millisecond)
			}
		}
		hangup := false // the next sessions hang up right after sending their command
		open := func(mode string) {
			id := nextID
			nextID++
			prefix := "cat"
			if mode == "tail" {
				prefix = "tail"
			}
			f := filepath.Join(dataDir, fmt.Sprintf("%s-%03d.log", prefix, id))
			if mode == "tail" {
				os.WriteFile(f, []byte("old\n"), 0644)
			} else {
				os.Link(big, f)
			}
			userName, k := "tester", key
			if hrng.Intn(3) == 0 {
				userName, k = "other", key2
			}
			client, _, out, in, err := trySession(srv.Addr(), userName, []ssh.AuthMethod{ssh.PublicKeys(k.Signer)}, "")
			if err != nil {
				hist = append(hist, "open-failed")
				return
			}
			// session options are client-supplied: whatever a client claims, the
			// server-wide limits apply
			opts := []string{"plain=true", "plain=true:quiet=true", "plain=true:serverless=true", "serverless=true", "quiet=true:serverless=true:plain=true"}[hrng.Intn(5)]
			cmd := "cat:" + opts + " " + f + " regex:noop "
			switch mode {
			case "grep":
				cmd = "grep:" + opts + " " + f + " regex:default fox"
			case "tail":
				cmd = "tail:" + opts + " " + f + " regex:noop "
			}
			r.SetAdd("session_options", opts)
			io.WriteString(in, encodeCommand(cmd))
			if hangup {
				// the session is gone by the time (or at the very moment) its read
				// asks for a slot
				client.Close()
				r.Count("sessions_hanging_up_right_after_their_command", 1)
				hist = append(hist, fmt.Sprintf("open+hangup(%s#%d as %s)", mode, id, userName))
				return
			}
			sessions = append(sessions, &c13Session{id: id, mode: mode, file: f, client: client, out: out, in: in, live: true})
			hist = append(hist, fmt.Sprintf("open(%s#%d as %s)", mode, id, userName))
		}
		pickLive := func(kindTail bool) *c13Session {
			var cand []*c13Session
			for _, s := range sessions {
				if s.live && (s.mode == "tail") == kindTail {
					cand = append(cand, s)
				}
			}
			if len(cand) == 0 {
				return nil
			}
			return cand[hrng.Intn(len(cand))]
		}
		isOpenInServer := func(s *c13Session) bool {
			_, _, files := count()
			for _, f := range files {
				if strings.HasSuffix(f, filepath.Base(s.file)) {
					return true
				}
			}
			return false
		}
		good := true
		steps := 8 + hrng.Intn(8)
		sawWaiting := false
		for st := 0; st < steps && good; st++ {
			switch op := hrng.Intn(11); {
			case op == 10: // burst of sessions which hang up at once
				hangup = true
				for i, k := 0, 4+hrng.Intn(8); i < k; i++ {
					open([]string{"cat", "grep", "tail"}[hrng.Intn(3)])
				}
				hangup = false
			case op < 3:
				open([]string{"cat", "cat", "grep"}[hrng.Intn(3)])
			case op == 3:
				open("tail")
			case op == 4: // burst
				k := 2 + hrng.Intn(4)
				for i := 0; i < k; i++ {
					open([]string{"cat", "grep", "tail"}[hrng.Intn(3)])
				}
			case op < 7: // cancel
				s := pickLive(hrng.Intn(3) == 0)
				if s == nil {
					continue
				}
				waiting := !isOpenInServer(s)
				if waiting {
					sawWaiting = true
					r.Count("cancellations_while_waiting", 1)
				} else {
					r.Count("cancellations_while_running", 1)
				}
				hist = append(hist, fmt.Sprintf("cancel(%s#%d,waiting=%v)", s.mode, s.id, waiting))
				s.client.Close()
				s.live = false
			default: // drain a cat/grep session to completion
				s := pickLive(false)
				if s == nil {
					continue
				}
				waiting := !isOpenInServer(s)
				if waiting {
					sawWaiting = true
					// a waiting session cannot complete before a slot frees: drain a running one instead
					var running *c13Session
					for _, x := range sessions {
						if x.live && x.mode != "tail" && isOpenInServer(x) {
							running = x
						}
					}
					if running == nil {
						continue
					}
					s = running
				}
				hist = append(hist, fmt.Sprintf("drain(%s#%d)", s.mode, s.id))
				done := make(chan int64, 1)
				go func() {
					// read to the end; answer the close handshake like a client does
					var n int64
					buf := make([]byte, 65536)
					var tail []byte
					acked := false
					for {
						k, err := s.out.Read(buf)
						n += int64(k)
						if !acked && k > 0 {
							tail = append(tail, buf[:k]...)
							if len(tail) > 64 {
								tail = tail[len(tail)-64:]
							}
							if bytes.Contains(tail, []byte(".syn close connection")) {
								io.WriteString(s.in, encodeCommand(".ack close connection"))
								acked = true
							}
						}
						if err != nil {
							break
						}
					}
					done <- n
				}()
				select {
				case n := <-done:
					r.Count("drained_bytes", int(n))
				case <-time.After(60 * time.Second):
					r.Inconclusive("drain-slow")
				}
				s.client.Close()
				s.live = false
			}
			if liveCount("cat") > catL || liveCount("tail") > tailL {
				sawWaiting = true
			}
			good = quiesce()
			smu.Lock()
			ol := overLimit
			smu.Unlock()
			if good && ol != "" {
				fail("more-files-read-than-the-limit", map[string]interface{}{"observation": ol})
				good = false
			}
		}
		// rotation of a followed file (truncation) followed by the end of that
		// session during the reader's retry back-off, while another follow is
		// queued: nobody's slot may be taken away.
		if good && hi%3 == 0 {
			for liveCount("tail") < tailL+1 {
				open("tail")
			}
			good = quiesce()
			var victim *c13Session
			for _, s := range sessions {
				if s.live && s.mode == "tail" && isOpenInServer(s) {
					victim = s
				}
			}
			if good && victim != nil {
				os.Truncate(victim.file, 0)
				hist = append(hist, fmt.Sprintf("truncate(tail#%d)", victim.id))
				// the follower notices within its 3 s housekeeping interval and closes the file
				deadline := time.Now().Add(12 * time.Second)
				for isOpenInServer(victim) && time.Now().Before(deadline) {
					time.Sleep(20 * time.Millisecond)
				}
				if !isOpenInServer(victim) {
					r.Count("rotations_noticed_by_follower", 1)
					time.Sleep(time.Duration(200+hrng.Intn(1300)) * time.Millisecond) // inside the 2 s back-off
					hist = append(hist, fmt.Sprintf("cancel(tail#%d, during retry back-off)", victim.id))
					victim.client.Close()
					victim.live = false
					good = quiesce()
					if good {
						open("tail")
						open("tail")
						good = quiesce()
					}
				} else {
					// not noticed in time: leave the session alone
					r.Count("rotations_not_noticed", 1)
				}
			}
			smu.Lock()
			ol := overLimit
			smu.Unlock()
			if good && ol != "" {
				fail("more-files-read-than-the-limit", map[string]interface{}{"observation": ol})
				good = false
			}
		}
		// a file vanishes (rotated away) while its read is still queued behind the limit, for longer than any periodic
		// check, and comes back: a read without a slot stays a read without a slot
		if good && hi%3 != 0 {
			mode, lim := "tail", tailL
			if hi%3 == 2 {
				mode, lim = "cat", catL
			}
			kind := mode
			for liveCount(kind) < lim+2 {
				open(mode)
			}
			good = quiesce()
			var queued *c13Session
			for _, s := range sessions {
				if s.live && (s.mode == "tail") == (mode == "tail") && !isOpenInServer(s) {
					queued = s
				}
			}
			if good && queued != nil {
				away := queued.file + ".rotated"
				os.Rename(queued.file, away)
				hist = append(hist, fmt.Sprintf("vanish(%s#%d, while queued, 4 s)", queued.mode, queued.id))
				time.Sleep(4 * time.Second)
				os.Rename(away, queued.file)
				hist = append(hist, fmt.Sprintf("back(%s#%d)", queued.mode, queued.id))
				r.Count("queued_reads_whose_file_vanished_and_came_back", 1)
				time.Sleep(3 * time.Second) // a follower's retry period
				good = quiesce()
			}
			smu.Lock()
			ol := overLimit
			smu.Unlock()
			if good && ol != "" {
				fail("more-files-read-than-the-limit", map[string]interface{}{"observation": ol})
				good = false
			}
		}
		// a session with three commands (a follow or a cat of three files given as a list) that is cut off after a
		// second: every one of its reads, running or queued, must be gone afterwards
		if good {
			mode := []string{"tail", "cat"}[hi%2]
			if client, _, _, in, err := trySession(srv.Addr(), "tester", []ssh.AuthMethod{ssh.PublicKeys(key.Signer)}, ""); err == nil {
				for k := 0; k < 3; k++ {
					f := filepath.Join(dataDir, fmt.Sprintf("%s-9%02d-%d.log", mode, hi%100, k))
					if mode == "tail" {
						os.WriteFile(f, []byte("old\n"), 0644)
						io.WriteString(in, encodeCommand("tail:plain=true "+f+" regex:noop "))
					} else {
						os.Link(big, f)
						io.WriteString(in, encodeCommand("cat:plain=true "+f+" regex:noop "))
					}
				}
				time.Sleep(time.Duration(700+hrng.Intn(900)) * time.Millisecond)
				client.Close()
				hist = append(hist, fmt.Sprintf("open+cancel(%s session with three commands)", mode))
				r.Count("multi_command_sessions_cut_off", 1)
				good = quiesce()
			}
		}
		// end: cancel everything, all slots must come back (nothing open)
		for _, s := range sessions {
			if s.live {
				s.client.Close()
				s.live = false
			}
		}
		hist = append(hist, "cancel-all")
		if good {
			good = quiesce()
		}
		// afterwards a fresh read must proceed at once (no slot leaked)
		if good {
			open("cat")
			good = quiesce()
			for _, s := range sessions {
				if s.live {
					s.client.Close()
					s.live = false
				}
			}
		}
		smu.Lock()
		ol, mc, mt, ns := overLimit, maxCat, maxTail, samples
		smu.Unlock()
		if good && ol != "" {
			fail("more-files-read-than-the-limit", map[string]interface{}{"observation": ol})
			good = false
		}
		r.Count("fd_samples", ns)
		r.Max(fmt.Sprintf("max_cat_files_open_at_limit_%d", catL), mc)
		r.Max(fmt.Sprintf("max_tail_files_open_at_limit_%d", tailL), mt)
		// trace monitor
		time.Sleep(100 * time.Millisecond)
		evs := readTrace(trace)
		holders := map[string]int{}
		acquired := map[string]int{}
		var sig []string
		nLim := 0
		for _, e := range evs {
			if !strings.HasPrefix(e.Name, "srv.lim.") || len(e.KV) < 3 {
				continue
			}
			nLim++
			mode := e.KV[1]
			limit := catL
			if mode == "tail" {
				limit = tailL
			}
			id := e.KV[0] + "|" + e.KV[2]
			sig = append(sig, strings.TrimPrefix(e.Name, "srv.lim.")+":"+mode)
			switch e.Name {
			case "srv.lim.acq":
				holders[mode]++
				acquired[id]++
			case "srv.lim.rel":
				holders[mode]--
				if acquired[id] == 0 {
					fail("trace-release-without-acquisition", map[string]interface{}{"event": e})
					good = false
				}
				acquired[id]--
			case "srv.lim.wait":
				r.Count("trace_waits", 1)
			}
			if holders[mode] < 0 || holders[mode] > limit {
				fail("trace-holders-out-of-range", map[string]interface{}{"mode": mode, "holders": holders[mode], "limit": limit, "event": e})
				good = false
				break
			}
		}
		r.Count("trace_limiter_events", nLim)
		if good && (holders["cat"] != 0 || holders["tail"] != 0) && nLim > 0 {
			fail("trace-slots-not-returned", map[string]interface{}{"holders": holders})
		}
		sort.Strings(sig)
		r.SetAdd("limiter_event_order_signatures", fmt.Sprintf("%x", hashStrings(traceOrder(evs))))
		key := ""
		if sawWaiting {
			key = fmt.Sprintf("%d|%d|%v", catL, tailL, hist)
		}
		r.Eval(key)
		r.Count("steps", len(hist))
		if hi < 2 {
			r.Sample(map[string]interface{}{"cat_limit": catL, "tail_limit": tailL, "history": hist, "max_cat_open": mc, "max_tail_open": mt, "fd_samples": ns})
		}
		if !srv.D.Alive() {
			r.Violation("server-died", map[string]interface{}{"history": hist, "log": vlib.Trunc(string(srv.D.Log()), 2000)})
		}
	})
	return nHist / 2
}

func traceOrder(evs []hookEvent) []string {
	var out []string
	for _, e := range evs {
		if strings.HasPrefix(e.Name, "srv.lim.") && len(e.KV) >= 2 {
			out = append(out, e.Name+":"+e.KV[1])
		}
	}
	return out
}
