package props

import (
	"encoding/base64"
	"encoding/json"
	"flag"
	"fmt"
	"net"
	"os"
	"strconv"
	"strings"
	"sync"
	"time"

	"github.com/mimecast/dtail/verifharness/internal/vlib"
	"golang.org/x/crypto/ssh"
)

// fakesshd: a minimal SSH server under harness control. It accepts any
// credentials, records what happens per connection as JSON lines and can play
// an arbitrary byte stream as the session's stdout.
//
//	vcheck child fakesshd -ports p1,p2 -hostkeys k1.pem[,k2.pem] -log events.jsonl
//	       [-play file] [-closeAfterMs n] [-noShellClose]
//
// The i-th connection (per port) is served with host key min(i, len-1), so a
// host key change between connections can be staged.

type fakeEvent struct {
	T    int64  `json:"t"`
	Port int    `json:"port"`
	Conn int    `json:"conn"`
	Ev   string `json:"ev"`
	User string `json:"user,omitempty"`
	Key  int    `json:"key"`
	Data string `json:"data,omitempty"` // base64
}

func init() {
	Children["fakesshd"] = fakeSSHD
}

func fakeSSHD(args []string) int {
	fs := flag.NewFlagSet("fakesshd", flag.ExitOnError)
	ports := fs.String("ports", "", "")
	hostkeys := fs.String("hostkeys", "", "")
	logPath := fs.String("log", "", "")
	play := fs.String("play", "", "")
	closeAfter := fs.Int("closeAfterMs", 300, "")
	delays := fs.String("delays", "", "port:ms,... delay before the handshake starts")
	fs.Parse(args)
	delayOf := map[int]int{}
	for _, d := range strings.Split(*delays, ",") {
		var p, ms int
		if n, _ := fmt.Sscanf(d, "%d:%d", &p, &ms); n == 2 {
			delayOf[p] = ms
		}
	}

	var signers []ssh.Signer
	for _, p := range strings.Split(*hostkeys, ",") {
		b, err := os.ReadFile(p)
		if err != nil {
			fmt.Fprintln(os.Stderr, err)
			return 2
		}
		s, err := ssh.ParsePrivateKey(b)
		if err != nil {
			fmt.Fprintln(os.Stderr, err)
			return 2
		}
		signers = append(signers, s)
	}
	var playBytes []byte
	if *play != "" {
		playBytes, _ = os.ReadFile(*play)
	}
	logFd, err := os.OpenFile(*logPath, os.O_CREATE|os.O_WRONLY|os.O_APPEND, 0644)
	if err != nil {
		fmt.Fprintln(os.Stderr, err)
		return 2
	}
	var mu sync.Mutex
	emit := func(e fakeEvent) {
		e.T = time.Now().UnixNano()
		b, _ := json.Marshal(e)
		mu.Lock()
		logFd.Write(append(b, '\n'))
		mu.Unlock()
	}

	var wg sync.WaitGroup
	for _, ps := range strings.Split(*ports, ",") {
		port, _ := strconv.Atoi(ps)
		l, err := net.Listen("tcp", fmt.Sprintf("127.0.0.1:%d", port))
		if err != nil {
			fmt.Fprintln(os.Stderr, err)
			return 2
		}
		wg.Add(1)
		go func(port int, l net.Listener) {
			defer wg.Done()
			n := 0
			for {
				c, err := l.Accept()
				if err != nil {
					return
				}
				idx := n
				n++
				go func() {
					if ms := delayOf[port]; ms > 0 {
						time.Sleep(time.Duration(ms) * time.Millisecond)
					}
					serveFake(c, port, idx, signers, playBytes, *closeAfter, emit)
				}()
			}
		}(port, l)
	}
	emit(fakeEvent{Ev: "ready"})
	wg.Wait()
	return 0
}

func serveFake(c net.Conn, port, idx int, signers []ssh.Signer, play []byte, closeAfter int, emit func(fakeEvent)) {
	defer c.Close()
	k := idx
	if k >= len(signers) {
		k = len(signers) - 1
	}
	ev := func(name, user, data string) {
		emit(fakeEvent{Port: port, Conn: idx, Ev: name, User: user, Key: k, Data: data})
	}
	ev("conn", "", "")
	cfg := &ssh.ServerConfig{
		PasswordCallback: func(ssh.ConnMetadata, []byte) (*ssh.Permissions, error) { return nil, nil },
		PublicKeyCallback: func(ssh.ConnMetadata, ssh.PublicKey) (*ssh.Permissions, error) {
			return nil, nil
		},
	}
	cfg.AddHostKey(signers[k])
	sconn, chans, reqs, err := ssh.NewServerConn(c, cfg)
	if err != nil {
		ev("handshake-failed", "", base64.StdEncoding.EncodeToString([]byte(err.Error())))
		return
	}
	defer sconn.Close()
	ev("handshake", sconn.User(), "")
	go ssh.DiscardRequests(reqs)
	for nc := range chans {
		if nc.ChannelType() != "session" {
			nc.Reject(ssh.Prohibited, "no")
			continue
		}
		ch, creqs, err := nc.Accept()
		if err != nil {
			continue
		}
		go func() {
			for req := range creqs {
				if req.Type == "shell" {
					req.Reply(true, nil)
					ev("shell", sconn.User(), "")
					go func() {
						buf := make([]byte, 32768)
						for {
							n, err := ch.Read(buf)
							if n > 0 {
								ev("data", sconn.User(), base64.StdEncoding.EncodeToString(buf[:n]))
							}
							if err != nil {
								return
							}
						}
					}()
					go func() {
						// play in transport chunks of irregular size
						off := 0
						sizes := []int{1, 7, 64, 3, 4096, 200, 32768, 13}
						i := 0
						for off < len(play) {
							n := sizes[i%len(sizes)]
							i++
							if off+n > len(play) {
								n = len(play) - off
							}
							if _, err := ch.Write(play[off : off+n]); err != nil {
								return
							}
							off += n
						}
						ev("played", sconn.User(), "")
						if closeAfter >= 0 {
							time.Sleep(time.Duration(closeAfter) * time.Millisecond)
							ch.Close()
							sconn.Close()
						}
					}()
				} else {
					req.Reply(false, nil)
				}
			}
		}()
	}
	ev("closed", sconn.User(), "")
}

// FakeSSHD handle for the parent.
type fakeSSHDProc struct {
	D     *vlib.Daemon
	Ports []int
	Log   string
}

func startFakeSSHD(r *vlib.Run, name string, ports []int, hostKeyFiles []string, playFile string, closeAfterMs int) (*fakeSSHDProc, error) {
	return startFakeSSHDDelayed(r, name, ports, hostKeyFiles, playFile, closeAfterMs, "")
}

func startFakeSSHDDelayed(r *vlib.Run, name string, ports []int, hostKeyFiles []string, playFile string, closeAfterMs int, delays string) (*fakeSSHDProc, error) {
	dir := r.Dir("fakesshd-" + name)
	logPath := dir + "/events.jsonl"
	os.Remove(logPath)
	var ps []string
	for _, p := range ports {
		ps = append(ps, strconv.Itoa(p))
	}
	args := []string{"child", "fakesshd", "-ports", strings.Join(ps, ","), "-hostkeys", strings.Join(hostKeyFiles, ","),
		"-log", logPath, "-closeAfterMs", strconv.Itoa(closeAfterMs)}
	if playFile != "" {
		args = append(args, "-play", playFile)
	}
	if delays != "" {
		args = append(args, "-delays", delays)
	}
	d, err := vlib.StartDaemon(r.Bin("vcheck"), args, nil, dir, dir+"/fakesshd.out")
	if err != nil {
		return nil, err
	}
	// wait for the "ready" event (all ports are listening then); no probe
	// connection is made, so connection indices seen by the server are exact.
	f := &fakeSSHDProc{D: d, Ports: ports, Log: logPath}
	deadline := time.Now().Add(15 * time.Second)
	for {
		ready := false
		for _, e := range f.Events() {
			if e.Ev == "ready" {
				ready = true
			}
		}
		if ready {
			return f, nil
		}
		if !d.Alive() || time.Now().After(deadline) {
			d.Stop()
			return nil, fmt.Errorf("fakesshd did not get ready: %s", d.Log())
		}
		time.Sleep(5 * time.Millisecond)
	}
}

func (f *fakeSSHDProc) Events() []fakeEvent {
	b, _ := os.ReadFile(f.Log)
	var out []fakeEvent
	for _, l := range strings.Split(string(b), "\n") {
		if l == "" {
			continue
		}
		var e fakeEvent
		if json.Unmarshal([]byte(l), &e) == nil {
			out = append(out, e)
		}
	}
	return out
}

func (f *fakeSSHDProc) Stop() {
	if f != nil {
		f.D.Stop()
	}
}
