package props

import (
	"fmt"
	"os"
	"path/filepath"
	"strings"

	"github.com/mimecast/dtail/verifharness/internal/vlib"
	"golang.org/x/crypto/ssh/knownhosts"
)

// fleet: several dtail servers ("hosts") on loopback plus a client identity.
type fleet struct {
	r       *vlib.Run
	Servers []*vlib.Server
	Key     *vlib.Key
	Home    string
	KeyFile string
	User    string
}

var fleetKey *vlib.Key

// fleetPermissions: default rule list of the fleets (everything readable).
var fleetPermissions = []string{"!^/nonexistent-a/.*", "!^/nonexistent-b/[[:digit:]]+\\.key$", "readfiles:!^/nonexistent-c/.*", "^/.*", "!^/nonexistent-d/.*"}

func clientKey() *vlib.Key {
	mu.Lock()
	defer mu.Unlock()
	if fleetKey == nil {
		k, err := vlib.GenKey("ed25519")
		if err != nil {
			panic(err)
		}
		fleetKey = k
	}
	return fleetKey
}

// startFleet starts n servers named <name>-h1.. with the given Server config.
func startFleet(r *vlib.Run, name string, n int, serverCfg map[string]interface{}, env []string, logLevel string) (*fleet, error) {
	return startFleetDomain(r, name, n, serverCfg, env, logLevel, "")
}

// startFleetDomain: the servers are told a fully qualified host name
// (<name>-h<i><domain>); dtail labels everything with the first component.
func startFleetDomain(r *vlib.Run, name string, n int, serverCfg map[string]interface{}, env []string, logLevel string, domain string) (*fleet, error) {
	f := &fleet{r: r, Key: clientKey(), User: "tester"}
	f.Home, f.KeyFile = r.ClientHome(name, f.Key)
	// Unless the caller configures permissions itself, every fleet runs with a
	// rule list as an operator writes it: several rules, the one that grants
	// access not first (a list evaluated only partly denies everything).
	if _, ok := serverCfg["Permissions"]; !ok {
		withPerm := map[string]interface{}{}
		for k, v := range serverCfg {
			withPerm[k] = v
		}
		withPerm["Permissions"] = map[string]interface{}{"Default": fleetPermissions}
		serverCfg = withPerm
	}
	for i := 0; i < n; i++ {
		spec := &vlib.ServerSpec{
			Name:     fmt.Sprintf("%s-h%d", name, i+1),
			Hostname: map[bool]string{true: fmt.Sprintf("%s-h%d%s", name, i+1, domain), false: ""}[domain != ""],
			Server:   serverCfg,
			Env:      env,
			LogLevel: logLevel,
			Users:    map[string][]string{f.User: {f.Key.AuthKey}},
		}
		s, err := r.StartServer(spec)
		if err != nil {
			f.Stop()
			return nil, err
		}
		f.Servers = append(f.Servers, s)
	}
	// The servers' host key is known to the client: no prompt, and concurrent
	// clients sharing this HOME never rewrite known_hosts.
	var kh strings.Builder
	for _, s := range f.Servers {
		kh.WriteString(knownhosts.Line([]string{s.Addr()}, s.Spec.HostKey.Signer.PublicKey()) + "\n")
	}
	os.WriteFile(filepath.Join(f.Home, ".ssh", "known_hosts"), []byte(kh.String()), 0600)
	return f, nil
}

// ServersArg is the --servers value.
func (f *fleet) ServersArg() string {
	var a []string
	for _, s := range f.Servers {
		a = append(a, s.Addr())
	}
	return strings.Join(a, ",")
}

// ClientArgs are the common client flags for SSH operation.
func (f *fleet) ClientArgs() []string {
	return []string{"--cfg", "none", "--key", f.KeyFile, "--user", f.User, "--servers", f.ServersArg()}
}

// ClientEnv is the environment for clients.
func (f *fleet) ClientEnv() []string { return []string{"HOME=" + f.Home} }

// WriteFile writes a file relative to server i's working directory.
func (f *fleet) WriteFile(i int, rel string, content []byte) string {
	p := filepath.Join(f.Servers[i].Spec.Dir, rel)
	os.MkdirAll(filepath.Dir(p), 0755)
	os.WriteFile(p, content, 0644)
	return p
}

// Stop all servers.
func (f *fleet) Stop() {
	if f == nil {
		return
	}
	for _, s := range f.Servers {
		s.Stop()
	}
}

// AllAlive reports whether every server process still runs.
func (f *fleet) AllAlive() bool {
	for _, s := range f.Servers {
		if !s.D.Alive() {
			return false
		}
	}
	return true
}
