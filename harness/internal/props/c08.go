package props

import (
	"bytes"
	"encoding/json"
	"fmt"
	"math/rand"
	"os"
	"path/filepath"
	"regexp"
	"strings"
	"sync"
	"syscall"
	"time"

	"github.com/mimecast/dtail/verifharness/internal/vlib"
	"golang.org/x/crypto/ssh/knownhosts"
)

// C08 — users read only files their permission rules allow.

type c08Node struct {
	Path   string `json:"path"`             // relative to root
	Kind   string `json:"kind"`             // file | dir | symlink | fifo
	Target string `json:"target,omitempty"` // symlink target (relative to root unless absolute, "" = as is)
	Raw    bool   `json:"raw,omitempty"`    // target is used verbatim
}

type c08Case struct {
	Nodes    []c08Node `json:"nodes"`
	Default  []string  `json:"default"` // rules; {ROOT} is replaced by the root dir
	UserName string    `json:"user"`
	UserRule []string  `json:"user_rules,omitempty"`
	// UserEmpty: the user has an entry with an empty rule list (no rule can
	// match: everything is denied, the default rules do not apply).
	UserEmpty bool `json:"user_empty,omitempty"`
	// Decoy: rules of another user in the same configuration; must never
	// influence this user's verdicts.
	Decoy    []string `json:"decoy,omitempty"`
	Requests []string `json:"requests"` // {ROOT}-relative templates or relative paths (cwd = root)
	// DotDot: requests with '..' right behind a link (e2e tier only): read lexically and read the way the kernel
	// resolves them they name two different files.
	DotDot []string `json:"dotdot,omitempty"`
}

type c08Answer struct {
	Request    string `json:"request"`
	Got        bool   `json:"got"`
	GotConc    bool   `json:"got_conc"` // verdict when all requests of a session are checked at once
	Resolved   string `json:"resolved"`
	ResolveErr bool   `json:"resolve_err"`
	Regular    bool   `json:"regular"`
}

type c08Result struct {
	Root    string      `json:"root"`
	Answers []c08Answer `json:"answers"`
	NoUser  bool        `json:"no_user,omitempty"` // user.New refused the user (no rules at all)
	// Answers2: the same requests by a new session after every symbolic link
	// of the tree was re-pointed (same server process)
	Answers2  []c08Answer `json:"answers2,omitempty"`
	Repointed int         `json:"repointed,omitempty"`
}

func init() {
	Drivers["C08"] = c08
}

func c08BuildTree(root string, nodes []c08Node) {
	os.MkdirAll(root, 0755)
	for _, n := range nodes {
		p := filepath.Join(root, n.Path)
		os.MkdirAll(filepath.Dir(p), 0755)
		switch n.Kind {
		case "dir":
			os.MkdirAll(p, 0755)
		case "file":
			os.WriteFile(p, []byte("TOKEN-"+tokenOf(n.Path)+"\n"), 0644)
		case "symlink":
			t := n.Target
			if !n.Raw {
				t = filepath.Join(root, n.Target)
			}
			os.Symlink(t, p)
		case "fifo":
			syscall.Mkfifo(p, 0644)
		}
	}
}

func tokenOf(rel string) string {
	return fmt.Sprintf("%x", hashStrings([]string{rel}))
}

// rulesVerdict is the independent statement of the rule semantics: rules in
// order, optional leading "type:" word (only readfiles rules count), "!" = deny
// rule, Go regexp on the resolved path, last match wins, no match = deny.
func rulesVerdict(rules []string, resolved string) bool {
	allowed := false
	for _, rule := range rules {
		if i := strings.Index(rule, ":"); i > 0 && isWord(rule[:i]) {
			if rule[:i] != "readfiles" {
				continue
			}
			rule = rule[i+1:]
		}
		deny := false
		if strings.HasPrefix(rule, "!") {
			deny = true
			rule = rule[1:]
		}
		re, err := regexp.Compile(rule)
		if err != nil {
			return false
		}
		if re.MatchString(resolved) {
			allowed = !deny
		}
	}
	return allowed
}

func isWord(s string) bool {
	for _, c := range s {
		if !(c >= 'a' && c <= 'z' || c >= 'A' && c <= 'Z') {
			return false
		}
	}
	return s != ""
}

func c08Subst(s, root string) string { return strings.ReplaceAll(s, "{ROOT}", root) }

func c08GenCase(rng *rand.Rand) c08Case {
	c := c08Case{UserName: []string{"tester", "alice", "bob"}[rng.Intn(3)]}
	dirs := []string{"allowed", "private", "logs/app", "logs/app2", "data1", "etc"}
	names := []string{"a.log", "b.log", "secret.log", "app-1.log", "app-22.log", "x.txt", "notes", "a:b.log", "we ird.log"}
	var files []string
	for _, d := range dirs {
		c.Nodes = append(c.Nodes, c08Node{Path: d, Kind: "dir"})
		for _, n := range names {
			if rng.Intn(3) == 0 {
				f := d + "/" + n
				c.Nodes = append(c.Nodes, c08Node{Path: f, Kind: "file"})
				files = append(files, f)
			}
		}
	}
	if len(files) == 0 {
		c.Nodes = append(c.Nodes, c08Node{Path: "allowed/a.log", Kind: "file"})
		files = append(files, "allowed/a.log")
	}
	pf := func() string { return files[rng.Intn(len(files))] }
	pd := func() string { return dirs[rng.Intn(len(dirs))] }
	var links []string
	nl := rng.Intn(8)
	for i := 0; i < nl; i++ {
		name := fmt.Sprintf("%s/link%d", pd(), i)
		switch rng.Intn(9) {
		case 0, 1: // file link
			c.Nodes = append(c.Nodes, c08Node{Path: name, Kind: "symlink", Target: pf()})
		case 2: // dir link
			c.Nodes = append(c.Nodes, c08Node{Path: name, Kind: "symlink", Target: pd()})
		case 3: // chain
			if len(links) > 0 {
				c.Nodes = append(c.Nodes, c08Node{Path: name, Kind: "symlink", Target: links[rng.Intn(len(links))]})
			} else {
				c.Nodes = append(c.Nodes, c08Node{Path: name, Kind: "symlink", Target: pf()})
			}
		case 4: // dangling
			c.Nodes = append(c.Nodes, c08Node{Path: name, Kind: "symlink", Target: "nowhere/none.log"})
		case 5: // loop
			c.Nodes = append(c.Nodes, c08Node{Path: name, Kind: "symlink", Target: name + "b"},
				c08Node{Path: name + "b", Kind: "symlink", Target: name})
		case 6: // special file
			c.Nodes = append(c.Nodes, c08Node{Path: name, Kind: "symlink", Target: "/dev/null", Raw: true})
		case 7: // relative target with ..
			c.Nodes = append(c.Nodes, c08Node{Path: name, Kind: "symlink", Target: "../" + pf(), Raw: true})
		case 8: // link to an outside regular file
			c.Nodes = append(c.Nodes, c08Node{Path: name, Kind: "symlink", Target: "/etc/hostname", Raw: true})
		}
		links = append(links, name)
	}
	if rng.Intn(4) == 0 {
		c.Nodes = append(c.Nodes, c08Node{Path: pd() + "/pipe", Kind: "fifo"})
		links = append(links, c.Nodes[len(c.Nodes)-1].Path)
	}
	// rules
	ruleFrag := func() string {
		switch rng.Intn(14) {
		case 0:
			return "^{ROOT}/" + pd() + "/"
		case 1:
			return "{ROOT}/" + pd()
		case 2:
			return ".*"
		case 3:
			return `\.log$`
		case 4:
			return `[[:digit:]]+\.log$`
		case 5:
			return `^{ROOT}/[[:alpha:]]+/[^/]*$`
		case 6:
			return "^{ROOT}/" + pf() + "$"
		case 7:
			return `/link[0-9]+`
		case 8:
			return `a:b`
		case 9:
			return "^/etc/"
		case 10:
			return `^{ROOT}/logs/app[0-9]*/app-[[:digit:]]{1,2}\.log$`
		case 11:
			return "secret"
		case 12:
			return `we ird`
		default:
			return "^{ROOT}/"
		}
	}
	mkRules := func() []string {
		n := 1 + rng.Intn(6)
		var rules []string
		for i := 0; i < n; i++ {
			r := ruleFrag()
			if rng.Intn(3) == 0 {
				r = "!" + r
			}
			switch rng.Intn(8) {
			case 0, 1:
				r = "readfiles:" + r
			case 2:
				r = "other:" + r // rule of another type: not a read rule
			}
			rules = append(rules, r)
		}
		return rules
	}
	c.Default = mkRules()
	switch rng.Intn(8) {
	case 0, 1, 2, 3:
		c.UserRule = mkRules()
	case 4:
		c.UserEmpty = true
	}
	if rng.Intn(2) == 0 {
		c.Decoy = mkRules()
		if rng.Intn(3) == 0 {
			c.Decoy = []string{"^/.*"}
		}
	}
	// requests: every spelling
	for _, f := range files {
		c.Requests = append(c.Requests, "{ROOT}/"+f)
		if rng.Intn(3) == 0 {
			c.Requests = append(c.Requests, f) // relative to cwd
		}
		if rng.Intn(3) == 0 {
			d := filepath.Dir(f)
			c.Requests = append(c.Requests, "{ROOT}/"+d+"/../"+f)
		}
		if rng.Intn(4) == 0 {
			c.Requests = append(c.Requests, "./"+filepath.Dir(f)+"/./"+filepath.Base(f))
		}
	}
	for _, l := range links {
		c.Requests = append(c.Requests, "{ROOT}/"+l)
		// through a directory link
		for _, n := range names[:4] {
			if rng.Intn(3) == 0 {
				c.Requests = append(c.Requests, "{ROOT}/"+l+"/"+n)
			}
		}
	}
	for _, d := range dirs[:3] {
		c.Requests = append(c.Requests, "{ROOT}/"+d)
	}
	c.Requests = append(c.Requests, "{ROOT}/nonexistent.log", "/etc/hostname", "/dev/null", "/proc/self/environ")
	// '..' behind a link: the kernel (and EvalSymlinks) step to the parent of the link's *target*, a lexical clean-up of the
	// path steps to the parent of the link itself. Both places get files of the same name (directly under the root, where
	// the parents of most link targets are, and in the directory the link lives in), so that the two readings name
	// different existing files, often with different verdicts. Which of the two files such a request *means* is not
	// defined by the statement; these requests go to the e2e tier only, where what is served is judged (see c08E2E).
	have := map[string]bool{}
	for _, nd := range c.Nodes {
		have[nd.Path] = true
	}
	var dirLinks []string
	for _, nd := range c.Nodes {
		if nd.Kind == "symlink" && !nd.Raw {
			for _, d := range dirs {
				if nd.Target == d {
					dirLinks = append(dirLinks, nd.Path)
				}
			}
		}
	}
	for k := 0; k < 2; k++ { // two more directory links, one of them pointing into a nested directory at times
		name := fmt.Sprintf("%s/linkdd%d", pd(), k)
		c.Nodes = append(c.Nodes, c08Node{Path: name, Kind: "symlink", Target: pd()})
		have[name] = true
		dirLinks = append(dirLinks, name)
	}
	for _, n := range names[:5] {
		if rng.Intn(2) == 0 && !have[n] {
			c.Nodes = append(c.Nodes, c08Node{Path: n, Kind: "file"})
			have[n] = true
			for _, l := range dirLinks {
				if rng.Intn(3) == 0 {
					continue
				}
				if tw := filepath.Dir(l) + "/" + n; !have[tw] {
					c.Nodes = append(c.Nodes, c08Node{Path: tw, Kind: "file"})
					have[tw] = true
				}
				c.DotDot = append(c.DotDot, "{ROOT}/"+l+"/../"+n)
				if rng.Intn(3) == 0 {
					c.DotDot = append(c.DotDot, l+"/.././"+n)
				}
			}
		}
	}
	return c
}

func c08(r *vlib.Run) int {
	r.Rule("random directory trees (regular files, directories, symlinks to files/dirs/chains/dangling/loops/special files/" +
		"outside files, relative '..' targets, FIFOs) x ordered rule lists (anchored/unanchored path fragments, POSIX classes, " +
		"literal ':', '!' deny rules, readfiles:-prefixed and other-typed rules, per-user and default) x every request spelling " +
		"(absolute, relative, with '..' and '.', via each symlink and through directory links). Oracle: allowed iff the " +
		"EvalSymlinks+Abs path is a regular file and the last matching rule is an allow rule. e2e: real dcat over SSH; a " +
		"file's unique token appears in the session output iff allowed. distinct = distinct (rules, resolved path) pairs; " +
		"non-trivial = at least one rule matched the path.")
	r.Assume("layouts are static during a case (check-then-open races are not part of the statement)")
	r.Assume("filepath.EvalSymlinks/Abs and Go regexp are trusted")
	n := r.N(1200, 60000)
	rng := r.Rng("api")
	cases := make([]interface{}, n)
	typed := make([]c08Case, n)
	for i := range cases {
		typed[i] = c08GenCase(rng)
		cases[i] = typed[i]
	}
	results, crashes := r.RunBatches("c08api", cases, 60, 14, nil, nil)
	for _, cr := range crashes {
		r.Violation("permission-check-crash", map[string]interface{}{"case": typed[cr.Any()], "stderr": vlib.Trunc(string(cr.Result.Stderr), 2500)})
	}
	for i, raw := range results {
		if raw == nil {
			continue
		}
		var res c08Result
		json.Unmarshal(raw, &res)
		c := typed[i]
		rules := c.Default
		if len(c.UserRule) > 0 {
			rules = c.UserRule
		}
		if c.UserEmpty {
			rules = nil
			r.Count("cases_user_with_empty_rule_list", 1)
		}
		if len(c.Decoy) > 0 {
			r.Count("cases_with_other_users_rules_present", 1)
		}
		var sub []string
		for _, ru := range rules {
			sub = append(sub, c08Subst(ru, res.Root))
		}
		if res.NoUser {
			r.Count("cases_user_refused_for_lack_of_rules", 1)
			if len(rules) > 0 {
				r.Violation("user-with-rules-refused", map[string]interface{}{"rules": rules, "user": c.UserName})
			}
		}
		if res.Repointed > 0 {
			r.Count("cases_with_links_repointed_between_sessions", 1)
		}
		for ai, a := range append(append([]c08Answer(nil), res.Answers...), res.Answers2...) {
			epoch2 := ai >= len(res.Answers)
			if epoch2 {
				r.Count("requests_after_links_were_repointed", 1)
			}
			want := !a.ResolveErr && a.Regular && rulesVerdict(sub, a.Resolved)
			key := ""
			if !a.ResolveErr && a.Regular {
				key = fmt.Sprintf("%v|%s", rules, strings.TrimPrefix(a.Resolved, res.Root))
			}
			r.Eval(key)
			switch {
			case a.ResolveErr:
				r.Count("requests_unresolvable", 1)
			case !a.Regular:
				r.Count("requests_not_regular", 1)
			case want:
				r.Count("requests_allowed", 1)
			default:
				r.Count("requests_denied_by_rules", 1)
			}
			if a.Request != a.Resolved && !a.ResolveErr {
				r.Count("requests_via_link_or_relative", 1)
			}
			if a.GotConc != want && a.Got == want {
				r.Violation("verdict-differs-when-files-are-checked-concurrently", map[string]interface{}{"request": a.Request, "resolved": a.Resolved,
					"rules": sub, "user": c.UserName, "got_concurrent": a.GotConc, "got_alone": a.Got, "want": want})
			}
			if a.Got != want && epoch2 {
				r.Violation("verdict-mismatch-after-links-were-repointed", map[string]interface{}{"request": a.Request, "resolved_now": a.Resolved, "regular": a.Regular,
					"resolve_err": a.ResolveErr, "rules": sub, "user": c.UserName, "got": a.Got, "want": want, "tree_before": c.Nodes,
					"repointing": "every symlink got the target of the next symlink node of the tree"})
			} else if a.Got != want {
				r.Violation("verdict-mismatch", map[string]interface{}{"request": a.Request, "resolved": a.Resolved, "regular": a.Regular,
					"resolve_err": a.ResolveErr, "rules": sub, "user": c.UserName, "got": a.Got, "want": want, "tree": c.Nodes})
			}
		}
		if i < 2 {
			r.Sample(map[string]interface{}{"rules": rules, "user": c.UserName, "n_nodes": len(c.Nodes), "requests": clipStrings(c.Requests, 6)})
		}
	}
	c08E2E(r)
	c08CrossSession(r)
	return n / 2
}

// c08CrossSession: two users with different rules work on one server at the
// same time, for a few seconds: alice (may read everything) keeps reading a
// large file bob may not read; bob greps and cats his own files with and
// without context options. Every line bob receives must be a line of a file
// bob may read - nothing of another session's content may ever show up in his.
func c08CrossSession(r *vlib.Run) {
	alice, _ := vlib.GenKey("ed25519")
	bob, _ := vlib.GenKey("ed25519")
	if alice == nil || bob == nil {
		r.Inconclusive("keygen")
		return
	}
	spec := &vlib.ServerSpec{Name: "c08x", LogLevel: "error",
		Users: map[string][]string{"alice": {alice.AuthKey}, "bob": {bob.AuthKey}}}
	spec.Dir = r.Dir("srv-c08x")
	root, _ := filepath.EvalSymlinks(spec.Dir)
	root = filepath.Join(root, "xroot")
	spec.Server = map[string]interface{}{"MaxConnections": 100, "MaxConcurrentCats": 20,
		"Permissions": map[string]interface{}{"Default": []string{"!^/.*"},
			"Users": map[string]interface{}{"alice": []string{"^" + root + "/.*"}, "bob": []string{"!^" + root + "/secret/.*", "^" + root + "/pub/.*"}}}}
	os.MkdirAll(filepath.Join(root, "secret"), 0755)
	os.MkdirAll(filepath.Join(root, "pub"), 0755)
	var sb bytes.Buffer
	for k := 0; k < 40000; k++ {
		fmt.Fprintf(&sb, "SECRET record %06d password=hunter%06d\n", k, k)
	}
	os.WriteFile(filepath.Join(root, "secret", "big.log"), sb.Bytes(), 0644)
	pubLines := map[string]bool{}
	for f := 0; f < 3; f++ {
		var pb bytes.Buffer
		for k := 0; k < 4000; k++ {
			l := fmt.Sprintf("PUB file %d line %05d quiet", f, k)
			if k%9 == 4 {
				l = fmt.Sprintf("PUB file %d line %05d hit", f, k)
			}
			pubLines[l] = true
			pb.WriteString(l + "\n")
		}
		os.WriteFile(filepath.Join(root, "pub", fmt.Sprintf("p%d.log", f)), pb.Bytes(), 0644)
	}
	srv, err := r.StartServer(spec)
	if err != nil {
		r.Inconclusive("server-start")
		return
	}
	defer srv.Stop()
	mkHome := func(name string, k *vlib.Key) (string, string) {
		home, keyFile := r.ClientHome("c08x-"+name, k)
		os.WriteFile(filepath.Join(home, ".ssh", "known_hosts"), []byte(knownhosts.Line([]string{srv.Addr()}, srv.Spec.HostKey.Signer.PublicKey())+"\n"), 0600)
		return home, keyFile
	}
	aHome, aKey := mkHome("alice", alice)
	bHome, bKey := mkHome("bob", bob)
	defer os.RemoveAll(aHome)
	defer os.RemoveAll(bHome)
	client := func(bin, user, home, keyFile string, args ...string) *vlib.Result {
		full := append([]string{"--cfg", "none", "--key", keyFile, "--user", user, "--servers", srv.Addr(), "--logger", "stdout", "--logLevel", "error", "--plain"}, args...)
		return vlib.RunCmd(vlib.Cmd{Path: r.Bin(bin), Args: full, Env: []string{"HOME=" + home}, Dir: home, Watchdog: 120 * time.Second})
	}
	stop := make(chan struct{})
	var wg sync.WaitGroup
	for a := 0; a < 3; a++ {
		wg.Add(1)
		go func(a int) {
			defer wg.Done()
			for {
				select {
				case <-stop:
					return
				default:
				}
				var res *vlib.Result
				if a == 2 {
					res = client("dgrep", "alice", aHome, aKey, "--files", filepath.Join(root, "secret", "big.log"), "--regex", "record 0000", "--max", "3")
				} else {
					res = client("dcat", "alice", aHome, aKey, "--files", filepath.Join(root, "secret", "big.log"))
				}
				r.Count("cross_session_other_users_sessions", 1)
				_ = res
			}
		}(a)
	}
	rounds := r.N(10, 80)
	pubGlob := filepath.Join(root, "pub", "*.log")
	variants := [][]string{{"--after", "2"}, {"--before", "1"}, {"--after", "1", "--before", "2"}, {}, {"--max", "5", "--after", "3"}}
	foreign, checked := 0, 0
	var examples []string
	for k := 0; k < rounds; k++ {
		var res *vlib.Result
		if k%5 == 3 {
			res = client("dcat", "bob", bHome, bKey, "--files", pubGlob)
		} else {
			res = client("dgrep", "bob", bHome, bKey, append([]string{"--files", pubGlob, "--regex", "hit$"}, variants[k%len(variants)]...)...)
		}
		r.Eval(fmt.Sprintf("cross-session|%d", k))
		if res.TimedOut {
			r.Inconclusive("client-watchdog")
			continue
		}
		// an allowed and a denied file in one request: the allowed one is served
		// completely ("every file so allowed is served"), the denied one not at all
		if k%5 == 2 {
			mixed := client("dcat", "bob", bHome, bKey, "--files", filepath.Join(root, "pub", "p0.log")+","+filepath.Join(root, "secret", "big.log"))
			nAllowed := 0
			for _, l := range strings.Split(strings.TrimSuffix(string(mixed.Stdout), "\n"), "\n") {
				if strings.HasPrefix(l, "PUB file 0 ") && pubLines[l] {
					nAllowed++
				} else if l != "" && !strings.HasPrefix(l, "SERVER|") {
					foreign++
					if len(examples) < 6 {
						examples = append(examples, vlib.Trunc(l, 160))
					}
				}
			}
			r.Count("requests_mixing_an_allowed_and_a_denied_file", 1)
			if nAllowed != 4000 && !mixed.TimedOut {
				r.Violation("e2e-allowed-file-not-served", map[string]interface{}{"request": "pub/p0.log,secret/big.log as bob", "allowed_lines_received": nAllowed, "want": 4000,
					"exit": mixed.Exit, "hung": mixed.Hung})
			}
		}
		// also a request for the secret file itself, in the same breath
		if k%4 == 0 {
			deny := client("dcat", "bob", bHome, bKey, "--files", filepath.Join(root, "secret", "big.log"))
			if bytes.Contains(deny.Stdout, []byte("SECRET record")) {
				foreign++
				examples = append(examples, "direct request for the denied file was served")
			}
		}
		for _, l := range strings.Split(strings.TrimSuffix(string(res.Stdout), "\n"), "\n") {
			if l == "" {
				continue
			}
			checked++
			if !pubLines[l] {
				foreign++
				if len(examples) < 6 {
					examples = append(examples, vlib.Trunc(l, 160))
				}
			}
		}
	}
	close(stop)
	wg.Wait()
	r.Count("cross_session_lines_received_and_checked", checked)
	if foreign > 0 {
		r.Violation("session-received-content-the-user-may-not-read", map[string]interface{}{"lines_that_are_no_line_of_a_permitted_file": foreign, "examples": examples,
			"scenario": "bob (pub/ only) greps/cats his files while alice's sessions read secret/big.log on the same server"})
	}
	if !srv.D.Alive() {
		r.Violation("e2e-server-died", map[string]interface{}{"scenario": "cross-session"})
	}
}

func c08E2E(r *vlib.Run) {
	nSrv := r.N(5, 60)
	rng := r.Rng("e2e")
	seeds := make([]int64, nSrv)
	for i := range seeds {
		seeds[i] = rng.Int63()
	}
	vlib.Parallel(nSrv, 5, func(si int) {
		srng := rand.New(rand.NewSource(seeds[si]))
		c := c08GenCase(srng)
		c.UserName = "tester"
		if si == 0 {
			// deterministic probe of the recorded finding c08.space-in-path
			c.Nodes = append(c.Nodes, c08Node{Path: "allowed/we ird.log", Kind: "file"})
			c.Default, c.UserRule, c.UserEmpty = []string{".*"}, nil, false
			c.Requests = []string{"{ROOT}/allowed/we ird.log"}
		}
		if si == 1 {
			// '..' behind a directory link with a same-named file at both places: pub/current -> ../rel/v1/log, so that
			// pub/current/../app.log is pub/app.log when cleaned lexically and rel/v1/app.log when the kernel walks it.
			c.Nodes = []c08Node{{Path: "pub", Kind: "dir"}, {Path: "rel/v1/log", Kind: "dir"}, {Path: "pub/app.log", Kind: "file"},
				{Path: "rel/v1/app.log", Kind: "file"}, {Path: "rel/app.log", Kind: "file"}, {Path: "app.log", Kind: "file"},
				{Path: "pub/current", Kind: "symlink", Target: "../rel/v1/log", Raw: true},
				{Path: "pub/abs", Kind: "symlink", Target: "rel/v1"}, {Path: "pub/sub", Kind: "dir"}, {Path: "pub/sub/app.log", Kind: "file"},
				{Path: "pub/sub/up", Kind: "symlink", Target: "rel/v1/log"}}
			c.Default, c.UserRule, c.UserEmpty, c.Decoy = []string{"^{ROOT}/pub/"}, nil, false, nil
			c.Requests = []string{"{ROOT}/pub/app.log", "{ROOT}/rel/v1/app.log", "{ROOT}/pub/*", "{ROOT}/pub/current/*", "{ROOT}/pub/abs/*"}
			c.DotDot = []string{"{ROOT}/pub/current/../app.log", "pub/current/../app.log", "./pub/current/../app.log", "{ROOT}/pub/abs/../app.log",
				"{ROOT}/pub/sub/up/../app.log", "{ROOT}/pub/sub/up/../../app.log", "{ROOT}/pub/current/.././app.log", "{ROOT}/pub/abs/../v1/app.log"}
		}
		// the tree lives in the server's working directory
		name := fmt.Sprintf("c08s%d", si)
		srvDir := r.Dir("srv-" + name + "-h1")
		root, _ := filepath.EvalSymlinks(srvDir)
		root = filepath.Join(root, "tree")
		c08BuildTree(root, c.Nodes)
		perms := map[string]interface{}{}
		var def []string
		for _, ru := range c.Default {
			def = append(def, c08Subst(ru, root))
		}
		perms["Default"] = def
		rules := def
		if len(c.UserRule) > 0 {
			var ur []string
			for _, ru := range c.UserRule {
				ur = append(ur, c08Subst(ru, root))
			}
			perms["Users"] = map[string]interface{}{"tester": ur}
			rules = ur
		}
		if c.UserEmpty {
			perms["Users"] = map[string]interface{}{"tester": []string{}}
			rules = nil
			r.Count("e2e_servers_user_with_empty_rule_list", 1)
		}
		if len(c.Decoy) > 0 {
			var dr []string
			for _, ru := range c.Decoy {
				dr = append(dr, c08Subst(ru, root))
			}
			um, _ := perms["Users"].(map[string]interface{})
			if um == nil {
				um = map[string]interface{}{}
			}
			um["someoneelse"] = dr
			perms["Users"] = um
		}
		fl, err := startFleet(r, name, 1, map[string]interface{}{"Permissions": perms, "MaxConcurrentCats": 50}, nil, "error")
		if err != nil {
			r.Inconclusive("fleet-start")
			return
		}
		defer fl.Stop()
		// all files with their tokens
		type tf struct{ resolved, token string }
		var files []tf
		for _, nd := range c.Nodes {
			if nd.Kind == "file" {
				files = append(files, tf{filepath.Join(root, nd.Path), "TOKEN-" + tokenOf(nd.Path)})
			}
		}
		reqs := append([]string(nil), c.Requests...)
		reqs = append(reqs, "{ROOT}/*/*", "{ROOT}/*/*.log", "{ROOT}/*/link*/*", "{ROOT}/private/*", "{ROOT}/*/secret.log", "{ROOT}/logs/*/*")
		srng.Shuffle(len(reqs), func(a, b int) { reqs[a], reqs[b] = reqs[b], reqs[a] })
		nReq := r.N(12, 40)
		if len(reqs) > nReq {
			reqs = reqs[:nReq]
		}
		dd := append([]string(nil), c.DotDot...)
		srng.Shuffle(len(dd), func(a, b int) { dd[a], dd[b] = dd[b], dd[a] })
		if len(dd) > 8 {
			dd = dd[:8]
		}
		reqs = append(reqs, dd...)
		vlib.Parallel(len(reqs), 6, func(qi int) {
			rq := reqs[qi]
			p := c08Subst(rq, root)
			if !filepath.IsAbs(p) {
				p = filepath.Join("tree", p) // server cwd is its dir; tree is below
			}
			res := runFleet(r, fl, "dcat", []string{"--plain", "--files", p}, nil)
			if res.TimedOut {
				r.Inconclusive("dcat-watchdog")
				return
			}
			// which files does the request reach?
			abs := p
			if !filepath.IsAbs(abs) {
				abs = filepath.Join(filepath.Dir(root), p)
			}
			matches, _ := filepath.Glob(filepath.Clean(abs))
			reachOf := func(ms []string) map[string]bool { // resolved paths reached and allowed
				reach := map[string]bool{}
				for _, m := range ms {
					rp, err := filepath.EvalSymlinks(m)
					if err != nil {
						continue
					}
					rp, _ = filepath.Abs(rp)
					st, err := os.Lstat(rp)
					if err != nil || !st.Mode().IsRegular() {
						continue
					}
					if rulesVerdict(rules, rp) {
						reach[rp] = true
					}
				}
				return reach
			}
			reach := reachOf(matches)
			// A request with '..' behind a link has two readings (lexically cleaned / as the kernel walks it). The
			// statement does not say which file such a request means, so: a file allowed under either reading may be
			// served, a file allowed under both must be, and nothing else may ever appear.
			may := reach
			if strings.Contains(rq, "/../") || strings.Contains(rq, "/.././") {
				asIs, _ := filepath.Glob(abs)
				kr := reachOf(asIs)
				may = map[string]bool{}
				both := map[string]bool{}
				for k := range reach {
					may[k] = true
					if kr[k] {
						both[k] = true
					}
				}
				for k := range kr {
					may[k] = true
				}
				if len(may) != len(both) {
					r.Count("e2e_requests_whose_lexical_and_kernel_reading_differ", 1)
				}
				reach = both
			}
			out := string(res.Stdout) + string(res.Stderr)
			r.Eval(fmt.Sprintf("e2e|%v|%s", rules, rq))
			r.Count("e2e_requests", 1)
			for _, f := range files {
				has := strings.Contains(out, f.token)
				want := reach[f.resolved]
				if want {
					r.Count("e2e_tokens_expected_and_checked", 1)
				}
				if want && !has && strings.Contains(p, " ") && strings.Contains(out, "Unable to parse command") {
					if r.Known("c08.space-in-path", "an allowed file whose path contains a blank cannot be requested (blank-separated wire command)") {
						continue
					}
				}
				if has && !want && may[f.resolved] {
					continue
				}
				if has != want {
					what := "e2e-denied-content-disclosed"
					if want {
						what = "e2e-allowed-file-not-served"
					}
					r.Violation(what, map[string]interface{}{"request": p, "file": f.resolved, "rules": rules, "glob_matches": clipStrings(matches, 20),
						"tree": c.Nodes, "stdout": vlib.Trunc(string(res.Stdout), 800), "exit": res.Exit, "hung": res.Hung})
				}
			}
			if res.Hung {
				r.Violation("e2e-dcat-hung", map[string]interface{}{"request": p, "rules": rules})
			}
		})
		if !fl.AllAlive() {
			r.Violation("e2e-server-died", map[string]interface{}{"rules": rules})
		}
	})
}
