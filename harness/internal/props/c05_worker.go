//go:build w_mapr

package props

import (
	"encoding/json"
	"github.com/mimecast/dtail/internal/source"
	"github.com/mimecast/dtail/verifharness/internal/dt"
	"github.com/mimecast/dtail/verifharness/internal/vlib"
)

func init() {
	Children["c05"] = c05Child
}

func c05Child(args []string) int {
	dir := args[0]
	dt.Init(source.Client, "none", "none", "error", true)
	return vlib.BatchMainPar(dir, 24, func(i int, raw json.RawMessage) interface{} {
		var c c05Case
		json.Unmarshal(raw, &c)
		return c05Result{Central: runPipeline(c.Central), Parted: runPipeline(c.Parted)}
	})
}
