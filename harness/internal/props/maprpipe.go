//go:build w_mapr

package props

import (
	"bytes"
	"context"
	"fmt"
	"os"
	"sync"
	"time"

	"github.com/mimecast/dtail/internal/io/line"
	"github.com/mimecast/dtail/internal/mapr"
	maprclient "github.com/mimecast/dtail/internal/mapr/client"
	maprserver "github.com/mimecast/dtail/internal/mapr/server"
)

// In-process mapreduce pipeline built from the real server-side aggregator,
// the real wire messages and the real client-side aggregator / global group:
//
//   lines -> server.Aggregate (per simulated server) -> serialized messages
//         -> client.Aggregate (per server) -> GlobalGroupSet -> CSV outfile
//
// The "periodic partial-result transmission" is made deterministic by calling
// the exported Aggregate.Serialize at chosen cut points.

var hostEnvMu sync.Mutex

func runPipeline(c pipeCase) (res pipeResult) {
	query, err := mapr.NewQuery(c.Query)
	if err != nil {
		res.ParseErr = err.Error()
		return
	}
	if query == nil || !query.HasOutfile() {
		res.Err = "query without outfile"
		return
	}
	global := mapr.NewGlobalGroupSet()
	ctx, cancel := context.WithCancel(context.Background())
	defer cancel()

	var wg sync.WaitGroup
	var mu sync.Mutex
	for _, s := range c.Servers {
		s := s
		hostEnvMu.Lock()
		os.Setenv("DTAIL_HOSTNAME_OVERRIDE", s.Host)
		agg, err := maprserver.NewAggregate(c.Query)
		hostEnvMu.Unlock()
		if err != nil {
			res.ParseErr = "server: " + err.Error()
			return
		}
		msgs := make(chan string, 64)
		chans := make([]chan *line.Line, len(s.Files))
		for i, f := range s.Files {
			chans[i] = make(chan *line.Line, len(f.Lines)+1)
		}
		hasCuts := false
		for _, f := range s.Files {
			if len(f.Cuts) > 0 {
				hasCuts = true
			}
		}
		mk := func(fi, li int, text string) *line.Line {
			return line.New(bytes.NewBufferString(text+"\n"), uint64(li+1), 100, fmt.Sprintf("f%d", fi))
		}
		// every channel is registered before any is closed and before the
		// aggregator starts: the aggregator's own end-of-input heuristic
		// (known finding c06.agg-early-exit) cannot interfere here.
		for i := range s.Files {
			agg.NextLinesCh <- chans[i]
		}
		if !hasCuts {
			for fi, f := range s.Files {
				for li, l := range f.Lines {
					chans[fi] <- mk(fi, li, l)
				}
				close(chans[fi])
			}
		}
		done := make(chan struct{})
		go func() {
			agg.Start(ctx, msgs)
			close(msgs)
			close(done)
		}()
		// client side of this server
		wg.Add(1)
		go func() {
			defer wg.Done()
			ca := maprclient.NewAggregate(s.Host, query, global)
			n := 0
			for m := range msgs {
				n++
				if c.SlowClientUs > 0 {
					time.Sleep(time.Duration(c.SlowClientUs) * time.Microsecond)
				}
				ca.Aggregate(m)
			}
			mu.Lock()
			res.Messages += n
			mu.Unlock()
		}()
		if hasCuts {
			wg.Add(1)
			go func() {
				defer wg.Done()
				fed := make([]int, len(s.Files))
				cutIdx := make([]int, len(s.Files))
				for {
					progressed := false
					for fi, f := range s.Files {
						if fed[fi] >= len(f.Lines) {
							continue
						}
						// feed up to the next cut of this file
						until := len(f.Lines)
						if cutIdx[fi] < len(f.Cuts) && f.Cuts[cutIdx[fi]] < until {
							until = f.Cuts[cutIdx[fi]]
						}
						for fed[fi] < until {
							chans[fi] <- mk(fi, fed[fi], f.Lines[fed[fi]])
							fed[fi]++
							progressed = true
						}
						if cutIdx[fi] < len(f.Cuts) && fed[fi] >= f.Cuts[cutIdx[fi]] {
							cutIdx[fi]++
							// wait until the fed lines were taken, then force a transmission
							for len(chans[fi]) > 0 {
								time.Sleep(2 * time.Millisecond)
							}
							time.Sleep(3 * time.Millisecond)
							agg.Serialize(ctx)
							progressed = true
						}
					}
					if !progressed {
						break
					}
				}
				// drain completely before closing: with nothing left in any
				// channel the aggregator's early exit (c06.agg-early-exit)
				// cannot lose a line.
				for fi := range s.Files {
					for len(chans[fi]) > 0 {
						time.Sleep(2 * time.Millisecond)
					}
				}
				for fi := range s.Files {
					close(chans[fi])
				}
				<-done
			}()
		} else {
			wg.Add(1)
			go func() { defer wg.Done(); <-done }()
		}
	}
	wg.Wait()
	os.Remove(c.Outfile)
	if err := global.WriteResult(query, true); err != nil {
		res.Err = "WriteResult: " + err.Error()
		return
	}
	b, err := os.ReadFile(c.Outfile)
	if err != nil {
		res.Err = "read outfile: " + err.Error()
		return
	}
	res.CSV = string(b)
	os.Remove(c.Outfile)
	os.Remove(c.Outfile + ".query")
	return
}

// pipelineMessages runs only the server half of the pipeline over the first server's files (no forced transmissions)
// and returns the messages the aggregator emitted.
func pipelineMessages(c pipeCase) (out []string, errText string) {
	if len(c.Servers) == 0 {
		return nil, "no server"
	}
	s := c.Servers[0]
	hostEnvMu.Lock()
	os.Setenv("DTAIL_HOSTNAME_OVERRIDE", s.Host)
	agg, err := maprserver.NewAggregate(c.Query)
	hostEnvMu.Unlock()
	if err != nil {
		return nil, "server: " + err.Error()
	}
	ctx, cancel := context.WithCancel(context.Background())
	defer cancel()
	msgs := make(chan string, 64)
	for fi, f := range s.Files {
		ch := make(chan *line.Line, len(f.Lines)+1)
		agg.NextLinesCh <- ch
		for li, l := range f.Lines {
			ch <- line.New(bytes.NewBufferString(l+"\n"), uint64(li+1), 100, fmt.Sprintf("f%d", fi))
		}
		close(ch)
	}
	go func() {
		agg.Start(ctx, msgs)
		close(msgs)
	}()
	for m := range msgs {
		out = append(out, m)
	}
	return out, ""
}
