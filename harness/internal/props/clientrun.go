package props

import (
	"github.com/mimecast/dtail/verifharness/internal/vlib"
)

// serverlessEnvHome returns a scratch HOME for serverless client runs.
func serverlessHome(r *vlib.Run) string { return r.Dir("home-serverless") }

// runServerless runs a dtail client binary without servers (same handlers,
// no SSH). stdin is /dev/null (a pipe would be read instead of the file).
func runServerless(r *vlib.Run, bin string, args []string, cfg string, extraEnv []string) *vlib.Result {
	home := serverlessHome(r)
	if cfg == "" {
		cfg = "none"
	}
	full := append([]string{"--cfg", cfg, "--logger", "stdout", "--logLevel", "error"}, args...)
	return vlib.RunCmd(vlib.Cmd{Path: r.Bin(bin), Args: full, Env: append([]string{"HOME=" + home}, extraEnv...), Dir: home})
}

// runFleet runs a dtail client binary against the fleet's servers.
func runFleet(r *vlib.Run, fl *fleet, bin string, args []string, extraEnv []string) *vlib.Result {
	full := append(fl.ClientArgs(), "--logger", "stdout", "--logLevel", "error")
	full = append(full, args...)
	return vlib.RunCmd(vlib.Cmd{Path: r.Bin(bin), Args: full, Env: append(fl.ClientEnv(), extraEnv...), Dir: fl.Home})
}
