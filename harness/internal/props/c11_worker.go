//go:build w_mapr

package props

import (
	"encoding/json"
	"fmt"
	"github.com/mimecast/dtail/internal/mapr"
	maprserver "github.com/mimecast/dtail/internal/mapr/server"
	"github.com/mimecast/dtail/internal/source"
	"github.com/mimecast/dtail/verifharness/internal/dt"
	"github.com/mimecast/dtail/verifharness/internal/vlib"
	"sync"
)

func init() {
	Children["c11"] = c11Child
	Children["c11conc"] = c11ConcChild
}

// c11ConcChild: the server parses the queries of all its sessions in one
// process. Every query is parsed once alone and then again while 7 other
// goroutines parse other queries in a tight loop; both results must agree.
func c11ConcChild(args []string) int {
	dir := args[0]
	dt.Init(source.Client, "none", "none", "error", true)
	return vlib.BatchMain(dir, func(i int, raw json.RawMessage) interface{} {
		var qs []string
		json.Unmarshal(raw, &qs)
		alone := make([]string, len(qs))
		for k, q := range qs {
			b, _ := json.Marshal(c11Parse(q))
			alone[k] = string(b)
		}
		type mm struct {
			Q, Alone, Concurrent string
		}
		var mu sync.Mutex
		var mismatches []mm
		parses := 0
		var wg sync.WaitGroup
		for g := 0; g < 8; g++ {
			wg.Add(1)
			go func(g int) {
				defer wg.Done()
				n := 0
				for rep := 0; rep < 6; rep++ {
					for k := g; k < len(qs)+g; k++ {
						idx := (k*7 + rep) % len(qs)
						b, _ := json.Marshal(c11Parse(qs[idx]))
						n++
						if string(b) != alone[idx] {
							mu.Lock()
							if len(mismatches) < 3 {
								mismatches = append(mismatches, mm{qs[idx], alone[idx], string(b)})
							}
							mu.Unlock()
						}
					}
				}
				mu.Lock()
				parses += n
				mu.Unlock()
			}(g)
		}
		wg.Wait()
		return map[string]interface{}{"parses": parses, "mismatches": mismatches}
	})
}

func c11Parse(qs string) (res c11Result) {
	defer func() {
		if p := recover(); p != nil {
			res.Panic = fmt.Sprint(p)
		}
	}()
	q, err := mapr.NewQuery(qs)
	if err != nil {
		res.Err = err.Error()
		return
	}
	if q == nil {
		res.Nil = true
		return
	}
	info := &c11Info{
		Table: q.Table, GroupBy: q.GroupBy, OrderBy: q.OrderBy, Reverse: q.ReverseOrder,
		IntervalS: q.Interval.Seconds(), Limit: q.Limit, LogFormat: q.LogFormat,
		NSelect: len(q.Select), NWhere: len(q.Where), NSet: len(q.Set), RawQuery: q.RawQuery,
	}
	if q.Outfile != nil {
		info.HasOutfile, info.OutPath, info.OutAppend = true, q.Outfile.FilePath, q.Outfile.AppendMode
	}
	res.Info = info
	return
}

func c11Child(args []string) int {
	dir := args[0]
	dt.Init(source.Client, "none", "none", "error", true)
	return vlib.BatchMainPar(dir, 8, func(i int, raw json.RawMessage) interface{} {
		var c c11Case
		json.Unmarshal(raw, &c)
		res := c11Parse(c.Q)
		// the same text as a server receives it: once, and again (a
		// reconnecting client or a scheduled job submits its query anew)
		res.Srv = []string{c11Submit(c.Q), c11Submit(c.Q)}
		if c.Pipe != nil && res.Info != nil {
			p := runPipeline(*c.Pipe)
			res.Pipe = &p
		}
		return res
	})
}

// c11Submit hands the query text to the server side entry point of the
// mapreduce engine and reports whether it was accepted.
func c11Submit(qs string) (verdict string) {
	defer func() {
		if p := recover(); p != nil {
			verdict = "panic: " + fmt.Sprint(p)
		}
	}()
	agg, err := maprserver.NewAggregate(qs)
	if err != nil || agg == nil {
		return "rejected"
	}
	return "accepted"
}
