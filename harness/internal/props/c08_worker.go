//go:build w_c08

package props

import (
	"encoding/json"
	"fmt"
	"github.com/mimecast/dtail/internal/config"
	"github.com/mimecast/dtail/internal/source"
	user "github.com/mimecast/dtail/internal/user/server"
	"github.com/mimecast/dtail/verifharness/internal/dt"
	"github.com/mimecast/dtail/verifharness/internal/vlib"
	"os"
	"path/filepath"
	"sync"
)

func init() {
	Children["c08api"] = c08Child
}

func c08Child(args []string) int {
	dir := args[0]
	dt.Init(source.Server, "none", "none", "error", true)
	return vlib.BatchMain(dir, func(i int, raw json.RawMessage) interface{} {
		var c c08Case
		json.Unmarshal(raw, &c)
		root := filepath.Join(dir, fmt.Sprintf("t%d", i))
		// the scratch dir may itself be reached through symlinks
		os.MkdirAll(root, 0755)
		if rr, err := filepath.EvalSymlinks(root); err == nil {
			root = rr
		}
		c08BuildTree(root, c.Nodes)
		defer os.RemoveAll(root)
		var def []string
		for _, r := range c.Default {
			def = append(def, c08Subst(r, root))
		}
		config.Server.Permissions.Default = def
		config.Server.Permissions.Users = map[string][]string{}
		if len(c.UserRule) > 0 {
			var ur []string
			for _, r := range c.UserRule {
				ur = append(ur, c08Subst(r, root))
			}
			config.Server.Permissions.Users[c.UserName] = ur
		}
		if c.UserEmpty {
			config.Server.Permissions.Users[c.UserName] = []string{}
		}
		if len(c.Decoy) > 0 {
			var dr []string
			for _, r := range c.Decoy {
				dr = append(dr, c08Subst(r, root))
			}
			config.Server.Permissions.Users["someoneelse"] = dr
		}
		os.Chdir(root)
		res := c08Result{Root: root}
		// user.New refuses a user without any rule: no session, nothing is served
		u, uerr := user.New(c.UserName, "127.0.0.1:5555")
		res.NoUser = uerr != nil
		for _, rq := range c.Requests {
			p := c08Subst(rq, root)
			a := c08Answer{Request: p}
			if u != nil {
				a.Got = u.HasFilePermission(p, "readfiles")
			}
			resolved, err := filepath.EvalSymlinks(p)
			if err == nil {
				resolved, err = filepath.Abs(resolved)
			}
			if err != nil {
				a.ResolveErr = true
			} else {
				a.Resolved = resolved
				if st, err := os.Lstat(resolved); err == nil && st.Mode().IsRegular() {
					a.Regular = true
				}
			}
			res.Answers = append(res.Answers, a)
		}
		// A glob request checks all its files at once, each in its own
		// goroutine on the session's user object: repeat the verdicts that way
		// on a fresh user (fresh session).
		u2, err := user.New(c.UserName, "127.0.0.1:5556")
		if err == nil {
			var wg sync.WaitGroup
			for k := range res.Answers {
				wg.Add(1)
				go func(k int) {
					defer wg.Done()
					res.Answers[k].GotConc = u2.HasFilePermission(res.Answers[k].Request, "readfiles")
				}(k)
			}
			wg.Wait()
		}
		// second epoch in the same server process: every symbolic link of the
		// tree is re-pointed (link i gets the target link i+1 had), then the same
		// requests are made by a new session. The verdict has to follow the tree
		// as it is now.
		var linkIdx []int
		for k, nd := range c.Nodes {
			if nd.Kind == "symlink" {
				linkIdx = append(linkIdx, k)
			}
		}
		if len(linkIdx) >= 2 {
			res.Repointed = len(linkIdx)
			for q, k := range linkIdx {
				nd, from := c.Nodes[k], c.Nodes[linkIdx[(q+1)%len(linkIdx)]]
				p := filepath.Join(root, nd.Path)
				os.Remove(p)
				t := from.Target
				if !from.Raw {
					t = filepath.Join(root, from.Target)
				} else if !filepath.IsAbs(t) {
					// a relative target is relative to the link's own directory
					t = filepath.Join(filepath.Dir(filepath.Join(root, from.Path)), t)
				}
				os.Symlink(t, p)
			}
			u3, err := user.New(c.UserName, "127.0.0.1:5557")
			for _, rq := range c.Requests {
				p := c08Subst(rq, root)
				a := c08Answer{Request: p}
				if err == nil {
					a.Got = u3.HasFilePermission(p, "readfiles")
				}
				resolved, rerr := filepath.EvalSymlinks(p)
				if rerr == nil {
					resolved, rerr = filepath.Abs(resolved)
				}
				if rerr != nil {
					a.ResolveErr = true
				} else {
					a.Resolved = resolved
					if st, e := os.Lstat(resolved); e == nil && st.Mode().IsRegular() {
						a.Regular = true
					}
				}
				a.GotConc = a.Got
				res.Answers2 = append(res.Answers2, a)
			}
		}
		return res
	})
}
