//go:build w_c08

package props

import (
	"encoding/json"
	"fmt"
	"github.com/mimecast/dtail/internal/config"
	"github.com/mimecast/dtail/internal/source"
	user "github.com/mimecast/dtail/internal/user/server"
	"github.com/mimecast/dtail/verifharness/internal/dt"
	"github.com/mimecast/dtail/verifharness/internal/vlib"
	"os"
	"path/filepath"
	"sync"
)

func init() {
	Children["c08api"] = c08Child
}

func c08Child(args []string) int {
	dir := args[0]
	dt.Init(source.Server, "none", "none", "error", true)
	return vlib.BatchMain(dir, func(i int, raw json.RawMessage) interface{} {
		var c c08Case
		json.Unmarshal(raw, &c)
		root := filepath.Join(dir, fmt.Sprintf("t%d", i))
		// the scratch dir may itself be reached through symlinks
		os.MkdirAll(root, 0755)
		if rr, err := filepath.EvalSymlinks(root); err == nil {
			root = rr
		}
		c08BuildTree(root, c.Nodes)
		defer os.RemoveAll(root)
		var def []string
		for _, r := range c.Default {
			def = append(def, c08Subst(r, root))
		}
		config.Server.Permissions.Default = def
		config.Server.Permissions.Users = map[string][]string{}
		if len(c.UserRule) > 0 {
			var ur []string
			for _, r := range c.UserRule {
				ur = append(ur, c08Subst(r, root))
			}
			config.Server.Permissions.Users[c.UserName] = ur
		}
		if c.UserEmpty {
			config.Server.Permissions.Users[c.UserName] = []string{}
		}
		if len(c.Decoy) > 0 {
			var dr []string
			for _, r := range c.Decoy {
				dr = append(dr, c08Subst(r, root))
			}
			config.Server.Permissions.Users["someoneelse"] = dr
		}
		os.Chdir(root)
		res := c08Result{Root: root}
		// user.New refuses a user without any rule: no session, nothing is served
		u, uerr := user.New(c.UserName, "127.0.0.1:5555")
		res.NoUser = uerr != nil
		for _, rq := range c.Requests {
			p := c08Subst(rq, root)
			a := c08Answer{Request: p}
			if u != nil {
				a.Got = u.HasFilePermission(p, "readfiles")
			}
			resolved, err := filepath.EvalSymlinks(p)
			if err == nil {
				resolved, err = filepath.Abs(resolved)
			}
			if err != nil {
				a.ResolveErr = true
			} else {
				a.Resolved = resolved
				if st, err := os.Lstat(resolved); err == nil && st.Mode().IsRegular() {
					a.Regular = true
				}
			}
			res.Answers = append(res.Answers, a)
		}
		// A glob request checks all its files at once, each in its own
		// goroutine on the session's user object: repeat the verdicts that way
		// on a fresh user (fresh session).
		u2, err := user.New(c.UserName, "127.0.0.1:5556")
		if err == nil {
			var wg sync.WaitGroup
			for k := range res.Answers {
				wg.Add(1)
				go func(k int) {
					defer wg.Done()
					res.Answers[k].GotConc = u2.HasFilePermission(res.Answers[k].Request, "readfiles")
				}(k)
			}
			wg.Wait()
		}
		return res
	})
}
