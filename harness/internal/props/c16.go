package props

import (
	"bytes"
	"encoding/json"
	"fmt"
	"math/rand"
	"os"
	"path/filepath"
	"regexp"
	"sort"
	"strings"
	"time"

	"github.com/mimecast/dtail/verifharness/internal/vlib"
)

// C16 — no message content can crash the client; colouring never alters text.

var sgr = regexp.MustCompile("\x1b\\[[0-9;]*m")

func stripSGR(s string) string { return sgr.ReplaceAllString(s, "") }

func init() {
	Drivers["C16"] = c16
}

type c16PureResult struct {
	N          int      `json:"n"`
	Mismatches []string `json:"mismatches,omitempty"` // hex of offending messages
	Rendered   []string `json:"rendered,omitempty"`
}

// genMessage generates one client-visible message.
func c16GenMessage(rng *rand.Rand, partialEsc bool) string {
	sev := []string{"WARN", "ERROR", "FATAL", "INFO", "WARNING: x", "ERRORS", "warn"}
	fieldPool := []string{"", "host1", "100", " 99", "42", "file.log", "text with spaces", "a=b", "ünï", "\t", " ", "\r", "x\r",
		"\x1b[31mred\x1b[0m", "\x1b", "\x1b[", "[0m", "m", ".", "REMOTE", "SERVER", "CLIENT", "¬", "%s%d", "\x00", "{}", "100%"}
	f := func() string {
		if rng.Intn(5) == 0 {
			return sev[rng.Intn(len(sev))] + fieldPool[rng.Intn(len(fieldPool))]
		}
		if rng.Intn(10) == 0 {
			// text in a legacy encoding or with letters whose case mapping changes
			// their length, followed somewhere by a severity word in any case
			pre := []string{"\xe9t\xe9 \xe0 para\xeetre: erreur ", "caf\xe9 \xff\xfe\xfd\xfc\xfb ", "\u0250\u0250\u0250\u0250\u0250 ", "\u0130stanbul \u0131\u0131 ",
				"stra\u00dfe \ufb01\ufb02 ", "\xc3\x28\xa0\xa1 ", "\u1e9e\u1e9e "}[rng.Intn(7)]
			word := []string{"fatal", "error", "warn", "Error:", "FATAL", "Warning", "eRRoR"}[rng.Intn(7)]
			post := []string{"", " x", " in module", "!"}[rng.Intn(4)]
			b := make([]byte, rng.Intn(6))
			for i := range b {
				b[i] = byte(0x80 + rng.Intn(0x80))
			}
			return strings.NewReplacer("\xac", "x").Replace(string(b)) + pre + word + post
		}
		if rng.Intn(12) == 0 {
			b := make([]byte, rng.Intn(12))
			for i := range b {
				b[i] = byte(rng.Intn(256))
			}
			s := strings.NewReplacer("\xac", "x", "\n", "y").Replace(string(b))
			if !partialEsc {
				s = strings.ReplaceAll(s, "\x1b", "e")
			}
			return s
		}
		s := fieldPool[rng.Intn(len(fieldPool))]
		if !partialEsc && (s == "\x1b" || s == "\x1b[") {
			// In a stream an ESC fragment ending one message and "[0m" starting
			// the next would form a sequence only in the uncoloured output.
			s = "esc"
		}
		return s
	}
	var m string
	switch rng.Intn(12) {
	case 0:
		m = ""
	case 1:
		m = "." + f()
	case 2:
		m = f()
	default:
		prefix := []string{"REMOTE", "CLIENT", "SERVER", "AGGREGATE", "REMOTEX", "SERVERS", "CLIENT "}[rng.Intn(7)]
		n := rng.Intn(9)
		parts := []string{prefix}
		for i := 0; i < n; i++ {
			parts = append(parts, f())
		}
		m = strings.Join(parts, "|")
		if rng.Intn(10) == 0 {
			m = prefix
		}
	}
	// line endings
	switch rng.Intn(8) {
	case 0:
		m += "\n"
	case 1:
		m += "\r\n"
	case 2:
		m += "\r"
	case 3:
		m += "\n\n"
	case 4:
		if len(m) > 2 {
			k := rng.Intn(len(m))
			m = m[:k] + "\n" + m[k:]
		}
	}
	return m
}

type c16TableCase struct {
	Query     string     `json:"query"`
	Intervals [][]string `json:"intervals"`
	RowsLimit int        `json:"rows_limit"`
}

func c16Tables(r *vlib.Run) {
	if _, ok := r.WorkerBin("c16table"); !ok {
		r.Inconclusive("worker-unavailable")
		return
	}
	n := r.N(60, 1500)
	rng := r.Rng("tables")
	dir := r.Dir("c16tables")
	cases := make([]c16TableCase, n)
	for i := range cases {
		c := c16TableCase{RowsLimit: -1} // all rows: which rows a limit keeps depends on map order
		c.Query = []string{
			"select host,count($line),last(msg) from STATS group by host",
			"select count($line),last(msg),host from STATS group by host order by count($line)",
			"select host,count($line),last(msg) from STATS group by host rorder by count($line)",
		}[rng.Intn(3)]
		nIv := 2 + rng.Intn(4)
		hosts := 1 + rng.Intn(6)
		for iv := 0; iv < nIv; iv++ {
			var msgs []string
			for h := 0; h < hosts; h++ {
				if rng.Intn(4) == 0 {
					continue
				}
				name := fmt.Sprintf("h%d", h)
				if rng.Intn(3) == 0 {
					name += strings.Repeat("x", rng.Intn(4)*iv) // group keys get longer over time
				}
				cnt := 1
				for k := 0; k < iv*rng.Intn(4); k++ {
					cnt *= 10 // counts grow by orders of magnitude: columns get wider
				}
				val := strings.Repeat("v", 1+rng.Intn(3)+iv*rng.Intn(6))
				msgs = append(msgs, fmt.Sprintf("AGGREGATE|srv%d|%s∥%d∥count($line)≔%d∥last(msg)≔%s∥host≔%s∥", rng.Intn(3), name, cnt, cnt, val, name))
			}
			c.Intervals = append(c.Intervals, msgs)
		}
		cases[i] = c
	}
	vlib.Parallel(n, 12, func(i int) {
		p := filepath.Join(dir, fmt.Sprintf("t%d.json", i))
		b, _ := json.Marshal(cases[i])
		os.WriteFile(p, b, 0644)
		defer os.Remove(p)
		run := func(color string) *vlib.Result {
			return vlib.RunCmd(vlib.Cmd{Path: c16Bin(r), Args: []string{"child", "c16table", p, color}, Dir: dir})
		}
		col, plain := run("1"), run("0")
		r.Eval(fmt.Sprintf("table|%x", hashStrings([]string{string(b)})))
		r.Count("result_tables_rendered", len(cases[i].Intervals))
		if col.TimedOut || plain.TimedOut {
			r.Inconclusive("table-watchdog")
			return
		}
		d := map[string]interface{}{"case": cases[i], "exit_coloured": col.Exit, "exit_plain": plain.Exit,
			"stderr_coloured": vlib.Trunc(string(col.Stderr), 1200), "stderr_plain": vlib.Trunc(string(plain.Stderr), 1200)}
		if col.Exit != 0 || plain.Exit != 0 {
			r.Violation("table-render-crash", d)
			return
		}
		// rows come in map order (ties too): compare per table the header
		// lines exactly and the rows as a multiset
		norm := func(s string) string {
			var out []string
			for _, blk := range strings.Split(s, "=====\n") {
				ls := strings.Split(blk, "\n")
				if len(ls) > 2 {
					rows := append([]string(nil), ls[2:]...)
					sort.Strings(rows)
					ls = append(ls[:2:2], rows...)
				}
				out = append(out, strings.Join(ls, "\n"))
			}
			return strings.Join(out, "=====\n")
		}
		a, bb := norm(stripSGR(string(col.Stdout))), norm(string(plain.Stdout))
		if a != bb {
			fd := firstDiff([]byte(a), []byte(bb))
			d["coloured_stripped_around"] = around([]byte(a), fd)
			d["plain_around"] = around([]byte(bb), fd)
			r.Violation("coloured-result-table-differs-from-plain", d)
		}
	})
}

func c16GenStream(rng *rand.Rand) []byte {
	var b bytes.Buffer
	n := 1 + rng.Intn(40)
	for i := 0; i < n; i++ {
		m := c16GenMessage(rng, false)
		if strings.HasPrefix(m, ".syn") {
			m = "_" + m
		}
		if rng.Intn(6) == 0 {
			// aggregate data, well formed and not
			m = []string{
				"AGGREGATE|srv1|h1∥3∥count($line)≔3∥last(x)≔foo∥",
				"AGGREGATE|srv1|h1∥x∥count($line)≔3∥",
				"AGGREGATE|srv1|",
				"AGGREGATE|srv1|h1∥3∥count($line)≔notanumber∥",
				"AGGREGATE",
				"A",
				"AGGREGATE|srv1|h1∥3∥",
				"AGGREGATE|srv1|∥∥∥∥",
				"AGGREGATE|srv1|h1∥-5∥≔∥≔≔∥",
			}[rng.Intn(9)]
		}
		b.WriteString(m)
		b.WriteByte(0xAC)
		if rng.Intn(15) == 0 {
			b.WriteByte(0xAC) // empty message
		}
	}
	// A message may itself contain the delimiter byte (0xAC, also as the second
	// byte of some UTF-8 characters): the client cuts there. No piece may end in
	// an incomplete escape sequence, or it would combine with the start of the
	// next piece in the uncoloured stream only (see DESIGN.md §9).
	pieces := bytes.Split(b.Bytes(), []byte{0xAC})
	for i, p := range pieces {
		pieces[i] = c16PartialEscAtEnd.ReplaceAll(p, nil)
	}
	return bytes.Join(pieces, []byte{0xAC})
}

var c16PartialEscAtEnd = regexp.MustCompile(`\x1b(\[[0-9;]*)?$`)

func c16(r *vlib.Run) int {
	r.Rule("messages: prefixes REMOTE/CLIENT/SERVER/AGGREGATE (and look-alikes) with 0..8 fields drawn from a pool (empty, " +
		"severity words at every position, ESC fragments and complete SGR sequences, CR, NUL, arbitrary bytes), hidden '.' " +
		"messages, empty message, LF/CRLF/CR endings and embedded LF. pure tier: strip(Colorfy(m)) == m; handler tier: byte " +
		"streams fed to the real client/mapr/health handlers in child processes, coloured vs uncoloured stdout; e2e: a fake SSH " +
		"server plays the streams to real dcat/dmap/dtailhealth. distinct = distinct messages/streams; non-trivial = message " +
		"with at least one field delimiter.")
	r.Assume("strip removes ESC [ digits/; m sequences; when the message itself contains ESC, both sides are stripped")
	nPure := r.N(150000, 6000000)
	rng := r.Rng("pure")
	const per = 2000
	var cases []interface{}
	var all [][]string
	seen := map[string]bool{}
	distinct := 0
	for i := 0; i < nPure; i += per {
		var batch []string
		for k := 0; k < per; k++ {
			m := c16GenMessage(rng, true)
			if len(seen) < 400000 && !seen[m] {
				seen[m] = true
				if strings.Contains(m, "|") {
					distinct++
				}
			}
			batch = append(batch, fmt.Sprintf("%x", m))
		}
		cases = append(cases, batch)
		all = append(all, batch)
	}
	// deterministic probes (regression guards for the repaired index panics)
	probes := []string{"REMOTE", "REMOTE|a|b", "CLIENT|x", "SERVER", "REMOTE|", "SERVER|h", "CLIENT", "REMOTE|a|b|c|d", "REMOTE|||||", ""}
	var pb []string
	for _, p := range probes {
		pb = append(pb, fmt.Sprintf("%x", p))
	}
	cases = append(cases, pb)
	all = append(all, pb)
	results, crashes := r.RunBatches("c16pure", cases, 20, 14, nil, nil)
	for _, cr := range crashes {
		r.Violation("colorfy-crash", map[string]interface{}{"batch_first_messages_hex": clipStrings(all[cr.Any()], 5),
			"stderr": vlib.Trunc(string(cr.Result.Stderr), 2500)})
	}
	for _, raw := range results {
		if raw == nil {
			continue
		}
		var res c16PureResult
		json.Unmarshal(raw, &res)
		r.Evals(res.N)
		r.Count("pure_messages", res.N)
		for k, h := range res.Mismatches {
			var m string
			fmt.Sscanf(h, "%x", &m)
			r.Violation("colour-alters-text", map[string]interface{}{"message": fmt.Sprintf("%q", m), "message_hex": h, "coloured": res.Rendered[k]})
		}
	}
	r.DistinctN(distinct)
	r.Sample(map[string]interface{}{"message": "REMOTE|host1|100|42|file.log|ERROR text with spaces\r\n", "oracle": "strip(Colorfy(m)) == m"})

	// concurrent painting: the same oracle while 12 goroutines paint at once
	nConc := r.N(12, 200)
	if nConc > len(cases) {
		nConc = len(cases)
	}
	cres, ccrashes := r.RunBatches("c16conc", cases[:nConc], 4, 4, nil, nil)
	for _, cr := range ccrashes {
		r.Violation("colorfy-crash-when-painting-concurrently", map[string]interface{}{"batch_first_messages_hex": clipStrings(all[cr.Any()], 5),
			"stderr": vlib.Trunc(string(cr.Result.Stderr), 2500)})
	}
	for _, raw := range cres {
		if raw == nil {
			continue
		}
		var res c16PureResult
		json.Unmarshal(raw, &res)
		r.Evals(res.N)
		r.Count("messages_painted_while_other_goroutines_paint", res.N)
		for k, h := range res.Mismatches {
			var m string
			fmt.Sscanf(h, "%x", &m)
			r.Violation("colour-alters-text-when-painting-concurrently", map[string]interface{}{"message": fmt.Sprintf("%q", m), "message_hex": h, "coloured": res.Rendered[k]})
		}
	}

	c16Handlers(r)
	c16Tables(r)
	c16E2E(r)
	return nPure / 2
}

func c16Bin(r *vlib.Run) string {
	b, _ := r.WorkerBin("c16handler")
	return b
}

func c16Handlers(r *vlib.Run) {
	if _, ok := r.WorkerBin("c16handler"); !ok {
		r.Inconclusive("worker-unavailable")
		return
	}
	n := r.N(250, 8000)
	rng := r.Rng("handler")
	dir := r.Dir("c16streams")
	streams := make([][]byte, n)
	for i := range streams {
		streams[i] = c16GenStream(rng)
	}
	vlib.Parallel(n, 12, func(i int) {
		p := filepath.Join(dir, fmt.Sprintf("s%d.bin", i))
		os.WriteFile(p, streams[i], 0644)
		defer os.Remove(p)
		kind := []string{"client", "client", "mapr", "health"}[i%4]
		run := func(color string) *vlib.Result {
			return vlib.RunCmd(vlib.Cmd{Path: c16Bin(r), Args: []string{"child", "c16handler", p, kind, color}, Dir: dir})
		}
		col, plain := run("1"), run("0")
		r.Eval(fmt.Sprintf("stream|%s|%x", kind, hashStrings([]string{string(streams[i])})))
		r.Count("handler_streams", 1)
		r.Count("handler_stream_bytes", len(streams[i]))
		d := func() map[string]interface{} {
			return map[string]interface{}{"kind": kind, "stream_hex": fmt.Sprintf("%x", streams[i]),
				"stderr_coloured": vlib.Trunc(string(col.Stderr), 1500), "stderr_plain": vlib.Trunc(string(plain.Stderr), 1500),
				"exit_coloured": col.Exit, "exit_plain": plain.Exit}
		}
		if col.TimedOut || plain.TimedOut {
			r.Inconclusive("handler-watchdog")
			return
		}
		if col.Exit != 0 || plain.Exit != 0 || col.Hung || plain.Hung {
			r.Violation("handler-crash", d())
			return
		}
		a, b := stripSGR(string(col.Stdout)), string(plain.Stdout)
		if bytes.Contains(streams[i], []byte{0x1b}) {
			b = stripSGR(b)
		}
		if a != b {
			dd := d()
			fd := firstDiff([]byte(a), []byte(b))
			dd["coloured_stripped_around"] = around([]byte(a), fd)
			dd["plain_around"] = around([]byte(b), fd)
			r.Violation("handler-colour-alters-text", dd)
			return
		}
		if kind == "client" {
			// what the uncoloured client prints is exactly the non-hidden messages
			var want bytes.Buffer
			var buf []byte
			emit := func() {
				if !(len(buf) > 0 && buf[0] == '.') {
					want.Write(buf)
				}
				buf = buf[:0]
			}
			for _, c := range streams[i] {
				switch c {
				case '\n':
					buf = append(buf, c)
					emit()
				case 0xAC:
					emit()
				default:
					buf = append(buf, c)
				}
			}
			if !bytes.Equal(plain.Stdout, want.Bytes()) {
				dd := d()
				fd := firstDiff(plain.Stdout, want.Bytes())
				dd["plain_around"] = around(plain.Stdout, fd)
				dd["want_around"] = around(want.Bytes(), fd)
				r.Violation("handler-output-differs-from-messages", dd)
			}
		}
	})
}

// c16E2EMulti: one coloured dcat connected to several servers which all stream
// a long sequence of records at the same time, with the client's own log
// messages (connection statistics and the like, log level info) mixed in: all
// connections paint and log concurrently. Every record played must appear in
// the output exactly once per server, unaltered after stripping the colours.
func c16E2EMulti(r *vlib.Run) {
	dir := r.Dir("c16multi")
	hk := vlib.HostKey()
	hkFile := filepath.Join(dir, "hostkey.pem")
	os.WriteFile(hkFile, hk.PEM, 0600)
	key := clientKey()
	for round := 0; round < r.N(1, 5); round++ {
		nPorts := 6
		nMsgs := 25000
		var stream bytes.Buffer
		want := map[string]int{}
		for k := 0; k < nMsgs; k++ {
			sev := []string{"INFO", "WARN", "ERROR", "DEBUG"}[k%4]
			text := fmt.Sprintf("%s|round %d record %06d of a busy stream with some payload to paint", sev, round, k)
			rec := fmt.Sprintf("REMOTE|srv|100|%d|app.log|%s", k+1, text)
			stream.WriteString(rec + "\n")
			stream.WriteByte(0xAC)
			want[rec] = nPorts
		}
		p := filepath.Join(dir, fmt.Sprintf("m%d.bin", round))
		os.WriteFile(p, stream.Bytes(), 0644)
		var ports []int
		var servers []string
		seen := map[int]bool{}
		for len(ports) < nPorts {
			q := vlib.FreePort()
			if q != 0 && !seen[q] {
				seen[q] = true
				ports = append(ports, q)
				servers = append(servers, fmt.Sprintf("127.0.0.1:%d", q))
			}
		}
		f, err := startFakeSSHD(r, fmt.Sprintf("c16m-%d", round), ports, []string{hkFile}, p, 300)
		if err != nil {
			r.Inconclusive("fakesshd")
			return
		}
		home, keyFile := r.ClientHome(fmt.Sprintf("c16m-%d", round), key)
		args := []string{"--cfg", "none", "--trustAllHosts", "--logger", "stdout", "--logLevel", "info", "--key", keyFile, "--user", "tester",
			"--servers", strings.Join(servers, ","), "--files", "/var/log/x.log"}
		res := vlib.RunCmd(vlib.Cmd{Path: r.Bin("dcat"), Args: args, Env: []string{"HOME=" + home}, Dir: home, Watchdog: 240 * time.Second})
		f.Stop()
		os.Remove(p)
		os.RemoveAll(home)
		r.Eval(fmt.Sprintf("e2e-multi|%d", round))
		r.Count("e2e_multi_server_runs", 1)
		if res.TimedOut {
			r.Inconclusive("client-watchdog")
			continue
		}
		d := map[string]interface{}{"servers": nPorts, "records_per_server": nMsgs, "exit": res.Exit, "stderr": vlib.Trunc(string(res.Stderr), 1500)}
		if res.Panicked() || res.Hung {
			r.Violation("e2e-client-crash", d)
			continue
		}
		got := map[string]int{}
		other, clientLines := 0, 0
		var strange []string
		for _, l := range strings.Split(stripSGR(string(res.Stdout)), "\n") {
			switch {
			case l == "":
			case strings.HasPrefix(l, "CLIENT|") || strings.HasPrefix(l, "SERVER|"):
				clientLines++
			case want[l] > 0:
				got[l]++
			default:
				other++
				if len(strange) < 5 {
					strange = append(strange, vlib.Trunc(l, 200))
				}
			}
		}
		r.Count("e2e_multi_records_checked", len(got))
		r.Count("e2e_multi_client_log_lines_between_records", clientLines)
		missing, dup := 0, 0
		for rec, n := range want {
			if got[rec] < n {
				missing += n - got[rec]
			}
			if got[rec] > n {
				dup += got[rec] - n
			}
		}
		if other > 0 || missing > 0 || dup > 0 {
			d["lines_that_are_no_played_record"], d["examples"], d["records_missing"], d["records_in_excess"] = other, strange, missing, dup
			r.Violation("e2e-colour-alters-text-with-several-servers", d)
		}
	}
}

// c16E2EMultiMapr: the real dmap connected to four servers which all deliver, at the same time, aggregate records for
// the same twenty thousand groups (coloured and --noColor): the client must survive and print its result table.
func c16E2EMultiMapr(r *vlib.Run) {
	dir := r.Dir("c16multimapr")
	hk := vlib.HostKey()
	hkFile := filepath.Join(dir, "hostkey.pem")
	os.WriteFile(hkFile, hk.PEM, 0600)
	key := clientKey()
	nKeys := 20000
	var stream bytes.Buffer
	for k := 0; k < nKeys; k++ {
		fmt.Fprintf(&stream, "AGGREGATE|srv|k%06d∥1∥count($line)≔1∥id≔k%06d∥", k, k)
		stream.WriteByte(0xAC)
	}
	p := filepath.Join(dir, "aggr.bin")
	os.WriteFile(p, stream.Bytes(), 0644)
	defer os.Remove(p)
	for round := 0; round < r.N(2, 8); round++ {
		nPorts := 4
		var ports []int
		var servers []string
		seen := map[int]bool{}
		for len(ports) < nPorts {
			q := vlib.FreePort()
			if q != 0 && !seen[q] {
				seen[q] = true
				ports = append(ports, q)
				servers = append(servers, fmt.Sprintf("127.0.0.1:%d", q))
			}
		}
		f, err := startFakeSSHD(r, fmt.Sprintf("c16mm-%d", round), ports, []string{hkFile}, p, 300)
		if err != nil {
			r.Inconclusive("fakesshd")
			return
		}
		home, keyFile := r.ClientHome(fmt.Sprintf("c16mm-%d", round), key)
		args := []string{"--cfg", "none", "--trustAllHosts", "--logger", "stdout", "--logLevel", "error", "--key", keyFile, "--user", "tester",
			"--servers", strings.Join(servers, ","), "--files", "/var/log/x.log", "--query", "select id,count($line) group by id order by count($line) limit 5"}
		if round%2 == 1 {
			args = append(args, "--noColor")
		}
		res := vlib.RunCmd(vlib.Cmd{Path: r.Bin("dmap"), Args: args, Env: []string{"HOME=" + home}, Dir: home, Watchdog: 240 * time.Second})
		f.Stop()
		os.RemoveAll(home)
		r.Eval(fmt.Sprintf("e2e-multi-mapr|%d", round))
		r.Count("e2e_dmap_runs_with_four_servers_delivering_the_same_groups_at_once", 1)
		if res.TimedOut {
			r.Inconclusive("client-watchdog")
			continue
		}
		out := stripSGR(string(res.Stdout))
		d := map[string]interface{}{"servers": nPorts, "groups": nKeys, "coloured": round%2 == 0, "exit": res.Exit, "stderr": vlib.Trunc(string(res.Stderr), 1500), "stdout_tail": vlib.Trunc(out[len(out)-min(len(out), 600):], 600)}
		if res.Panicked() || res.Hung || strings.Contains(string(res.Stderr), "fatal error:") {
			r.Violation("e2e-client-crash", d)
			continue
		}
		// every group was delivered once by each of the four servers
		if !strings.Contains(out, "k0") || !regexp.MustCompile(`k\d{6}\s*\|\s*4\b`).MatchString(out) {
			r.Violation("e2e-result-table-missing-or-wrong", d)
		}
	}
}

func c16E2E(r *vlib.Run) {
	c16E2EMulti(r)
	c16E2EMultiMapr(r)
	n := r.N(36, 900)
	rng := r.Rng("e2e")
	dir := r.Dir("c16e2e")
	hk := vlib.HostKey()
	hkFile := filepath.Join(dir, "hostkey.pem")
	os.WriteFile(hkFile, hk.PEM, 0600)
	key := clientKey()
	streams := make([][]byte, n)
	for i := range streams {
		streams[i] = c16GenStream(rng)
	}
	vlib.Parallel(n, 8, func(i int) {
		p := filepath.Join(dir, fmt.Sprintf("e%d.bin", i))
		os.WriteFile(p, streams[i], 0644)
		port := vlib.FreePort()
		f, err := startFakeSSHD(r, fmt.Sprintf("c16-%d", i), []int{port}, []string{hkFile}, p, 150)
		if err != nil {
			r.Inconclusive("fakesshd")
			return
		}
		defer f.Stop()
		home, keyFile := r.ClientHome(fmt.Sprintf("c16-%d", i), key)
		bin := []string{"dcat", "dcat", "dmap", "dtailhealth"}[i%4]
		base := []string{"--cfg", "none", "--trustAllHosts", "--logger", "stdout", "--logLevel", "error"}
		switch bin {
		case "dcat":
			base = append(base, "--key", keyFile, "--user", "tester", "--servers", fmt.Sprintf("127.0.0.1:%d", port), "--files", "/var/log/x.log")
		case "dmap":
			base = append(base, "--key", keyFile, "--user", "tester", "--servers", fmt.Sprintf("127.0.0.1:%d", port), "--files", "/var/log/x.log",
				"--query", "select count($line),last(x) from STATS group by host")
		case "dtailhealth":
			base = []string{"--server", fmt.Sprintf("127.0.0.1:%d", port)}
		}
		run := func(noColor bool) *vlib.Result {
			a := append([]string(nil), base...)
			if noColor && bin != "dtailhealth" {
				a = append(a, "--noColor")
			}
			return vlib.RunCmd(vlib.Cmd{Path: r.Bin(bin), Args: a, Env: []string{"HOME=" + home}, Dir: home})
		}
		col := run(false)
		plain := run(true)
		r.Eval(fmt.Sprintf("e2e|%s|%x", bin, hashStrings([]string{string(streams[i])})))
		r.Count("e2e_runs_"+bin, 1)
		if col.TimedOut || plain.TimedOut {
			r.Inconclusive("client-watchdog")
			return
		}
		d := map[string]interface{}{"client": bin, "stream_hex": fmt.Sprintf("%x", streams[i]), "exit_coloured": col.Exit, "exit_plain": plain.Exit,
			"stderr_coloured": vlib.Trunc(string(col.Stderr), 1500), "stderr_plain": vlib.Trunc(string(plain.Stderr), 1500)}
		if col.Panicked() || plain.Panicked() || col.Hung || plain.Hung {
			r.Violation("e2e-client-crash", d)
			return
		}
		if bin == "dcat" {
			a, b := stripSGR(string(col.Stdout)), string(plain.Stdout)
			if bytes.Contains(streams[i], []byte{0x1b}) {
				b = stripSGR(b)
			}
			if a != b {
				fd := firstDiff([]byte(a), []byte(b))
				d["coloured_stripped_around"] = around([]byte(a), fd)
				d["plain_around"] = around([]byte(b), fd)
				r.Violation("e2e-colour-alters-text", d)
			}
		}
	})
}
