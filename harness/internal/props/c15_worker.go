//go:build w_mapr

package props

import (
	"bytes"
	"context"
	"encoding/json"
	"fmt"
	"os"
	"path/filepath"
	"regexp"
	"strings"
	"sync"
	"sync/atomic"
	"time"

	"github.com/mimecast/dtail/internal/clients"
	"github.com/mimecast/dtail/internal/config"
	"github.com/mimecast/dtail/internal/omode"
	"github.com/mimecast/dtail/internal/source"
	"github.com/mimecast/dtail/verifharness/internal/dt"
	"github.com/mimecast/dtail/verifharness/internal/vlib"
)

func init() {
	Children["c15noncum"] = c15NonCumChild
}

var c15RowRe = regexp.MustCompile(`^g[0-9]{5},[0-9]+,[0-9]+\.[0-9]+$`)

// c15NonCumChild runs the mapreduce client the way the server runs a
// continuous job: non-cumulative mode, following a file, outfile, interval 1;
// the job is cancelled after a while (as on a day change) while the process
// lives on. A watcher re-reads the outfile all the time.
func c15NonCumChild(args []string) int {
	dir := args[0]
	dt.Init(source.Client, "none", "none", "error", true)
	return vlib.BatchMain(dir, func(i int, raw json.RawMessage) interface{} {
		var c c15NonCumCase
		json.Unmarshal(raw, &c)
		res := c15NonCumResult{}
		work := filepath.Join(dir, fmt.Sprintf("job%d", i))
		os.MkdirAll(work, 0755)
		defer os.RemoveAll(work)
		in := filepath.Join(work, "in.log")
		out := filepath.Join(work, "job.csv")
		block := func(round int) []byte {
			var b bytes.Buffer
			for g := 0; g < c.Groups; g++ {
				fmt.Fprintf(&b, "INFO|1002-071209|1|m.go:1|8|14|7|0.21|471h|MAPREDUCE:JOB|g=g%05d|v=%d\n", g, round+1)
			}
			return b.Bytes()
		}
		os.WriteFile(in, []byte("INFO|1002-071209|1|m.go:1|8|14|7|0.21|471h|MAPREDUCE:JOB|g=g00000|v=1\n"), 0644)
		a := config.Args{ConnectionsPerCPU: config.DefaultConnectionsPerCPU, What: in, Mode: omode.TailClient, UserName: "job", Serverless: true}
		a.QueryStr = fmt.Sprintf("from JOB select g,count($line),sum(v) group by g limit 100000 interval 1 outfile %s", out)
		client, err := clients.NewMaprClient(a, clients.NonCumulativeMode)
		if err != nil {
			res.Err = err.Error()
			return res
		}
		ctx, cancel := context.WithCancel(context.Background())
		done := make(chan int, 1)
		go func() { done <- client.Start(ctx, make(chan string)) }()
		stop := make(chan struct{})
		var wg sync.WaitGroup
		var samples int64
		var mu sync.Mutex
		judge := func(content []byte) string {
			if len(content) == 0 {
				return "" // nothing reported in this interval: an empty result is complete
			}
			if bytes.IndexByte(content, 0) >= 0 {
				return "NUL bytes in the outfile"
			}
			if content[len(content)-1] != '\n' {
				return "outfile does not end with a complete line"
			}
			lines := strings.Split(strings.TrimSuffix(string(content), "\n"), "\n")
			headers := 0
			for k, l := range lines {
				if l == "g,count($line),sum(v)" {
					headers++
					if k != 0 {
						return fmt.Sprintf("header in line %d", k+1)
					}
					continue
				}
				if !c15RowRe.MatchString(l) {
					return fmt.Sprintf("line %d is not a result row: %q", k+1, vlib.Trunc(l, 80))
				}
			}
			if headers != 1 {
				return fmt.Sprintf("%d header lines", headers)
			}
			if len(lines)-1 > c.Groups {
				return fmt.Sprintf("%d rows, only %d groups exist", len(lines)-1, c.Groups)
			}
			return ""
		}
		wg.Add(2)
		go func() { // watcher
			defer wg.Done()
			for {
				select {
				case <-stop:
					return
				default:
				}
				if content, err := os.ReadFile(out); err == nil {
					atomic.AddInt64(&samples, 1)
					if why := judge(content); why != "" {
						mu.Lock()
						if res.Why == "" {
							res.Why, res.Bytes = why, len(content)
						}
						res.Bad++
						mu.Unlock()
					}
				}
				time.Sleep(2 * time.Millisecond)
			}
		}()
		go func() { // writer: a block of all groups every 250 ms
			defer wg.Done()
			fd, err := os.OpenFile(in, os.O_APPEND|os.O_WRONLY, 0644)
			if err != nil {
				return
			}
			defer fd.Close()
			time.Sleep(700 * time.Millisecond) // let the follow begin
			for round := 0; ; round++ {
				select {
				case <-stop:
					return
				default:
				}
				fd.Write(block(round))
				time.Sleep(250 * time.Millisecond)
			}
		}()
		time.Sleep(time.Duration(c.RunMs) * time.Millisecond)
		cancel()
		select {
		case res.Status = <-done:
		case <-time.After(20 * time.Second):
			res.Err = "the job did not end after it was cancelled"
		}
		time.Sleep(1500 * time.Millisecond)
		close(stop)
		wg.Wait()
		res.Samples = int(atomic.LoadInt64(&samples))
		if content, err := os.ReadFile(out); err == nil {
			if why := judge(content); why != "" && res.Why == "" {
				res.Why, res.Bytes = "left behind: "+why, len(content)
				res.Bad++
			}
			res.FinalRows = bytes.Count(content, []byte("\n"))
		}
		if _, err := os.Stat(out + ".tmp"); err == nil {
			res.TmpLeft = true
		}
		return res
	})
}
