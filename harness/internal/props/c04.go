package props

import (
	"bytes"
	"encoding/json"
	"fmt"
	"math/rand"
	"os"
	"os/exec"
	"path/filepath"
	"regexp"
	"strconv"
	"strings"
	"sync"
	"syscall"
	"time"

	"github.com/mimecast/dtail/verifharness/internal/vlib"
)

// C04 — following a file delivers every appended line once, in order.

func init() {
	Drivers["C04"] = c04
}

type c04Write struct {
	Data    []byte `json:"d"`           // base64 in JSON: chunks may cut multi-byte runes
	PauseMs int    `json:"p"`           // pause after this write
	StallMs int    `json:"s,omitempty"` // the consumer stops taking lines for this long, beginning just before this write
}

type c04Case struct {
	Old       string     `json:"old"`    // content present before the follow
	Writes    []c04Write `json:"writes"` // appended by the harness once the reader is positioned
	Pattern   string     `json:"pattern"`
	Cap       int        `json:"cap"`        // capacity of the delivery queue
	ConsumeMs float64    `json:"consume_ms"` // pause of the consumer per line (0 = immediate)
	Regime    string     `json:"regime"`     // a (queue can never be full) | b
	Chunker   string     `json:"chunker"`
}

type c04Delivered struct {
	Content string `json:"c"`
	Count   uint64 `json:"n"`
	Perc    int    `json:"p"`
}

type c04Result struct {
	Positioned bool           `json:"positioned"`
	Delivered  []c04Delivered `json:"delivered"`
	Err        string         `json:"err,omitempty"`
}

// fdPos returns the offset of the descriptor of this process open on path (-1 if none).
func fdPos(pid int, path string) int64 {
	dir := fmt.Sprintf("/proc/%d/fd", pid)
	ents, err := os.ReadDir(dir)
	if err != nil {
		return -1
	}
	for _, e := range ents {
		t, err := os.Readlink(filepath.Join(dir, e.Name()))
		if err != nil || t != path {
			continue
		}
		b, err := os.ReadFile(fmt.Sprintf("/proc/%d/fdinfo/%s", pid, e.Name()))
		if err != nil {
			continue
		}
		for _, l := range strings.Split(string(b), "\n") {
			if strings.HasPrefix(l, "pos:") {
				v, _ := strconv.ParseInt(strings.TrimSpace(strings.TrimPrefix(l, "pos:")), 10, 64)
				return v
			}
		}
	}
	return -1
}

// chunk cuts the appended text into write() calls.
func c04Chunk(rng *rand.Rand, text string, kind string) []c04Write {
	var out []c04Write
	pause := func() int { return []int{0, 0, 0, 1, 10, 150}[rng.Intn(6)] }
	switch kind {
	case "whole":
		return []c04Write{{Data: []byte(text)}}
	case "lines":
		for _, l := range strings.SplitAfter(text, "\n") {
			if l != "" {
				out = append(out, c04Write{Data: []byte(l), PauseMs: pause()})
			}
		}
	case "burst":
		ls := strings.SplitAfter(text, "\n")
		for len(ls) > 0 {
			n := 500
			if n > len(ls) {
				n = len(ls)
			}
			out = append(out, c04Write{Data: []byte(strings.Join(ls[:n], "")), PauseMs: []int{0, 150, 300}[rng.Intn(3)]})
			ls = ls[n:]
		}
	default: // byte chunks, cuts inside lines and inside multi-byte runes
		sizes := []int{1, 2, 3, 5, 13, 200, 4096}
		for len(text) > 0 {
			n := sizes[rng.Intn(len(sizes))]
			if kind == "tiny" {
				n = 1 + rng.Intn(3)
			}
			if n > len(text) {
				n = len(text)
			}
			out = append(out, c04Write{Data: []byte(text[:n]), PauseMs: pause()})
			text = text[n:]
		}
	}
	return out
}

// c04SlightLag: a consumer that keeps up for several hundred lines and then falls behind by a handful of lines, once:
// bursts of 90 lines (the queue holds 100) arrive while the consumer is fast, then one burst of a few lines more than
// the queue holds arrives while the consumer is not taking anything, then the consumer is fast again. The few dropped
// lines are a tiny share of everything delivered so far - the next delivered line must still say so.
func c04SlightLag(rng *rand.Rand, i int) (c04Case, []string) {
	c := c04Case{Old: "OLD-0 already in the file keep\n", Pattern: ".", Cap: 100, Regime: "b", Chunker: "slight-lag"}
	var expected []string
	k := 0
	burst := func(n, pause, stall int) {
		var sb strings.Builder
		for j := 0; j < n; j++ {
			l := fmt.Sprintf("id%05d-%d steady stream %s keep\n", k, i, strings.Repeat("y", rng.Intn(30)))
			k++
			sb.WriteString(l)
			expected = append(expected, l)
		}
		c.Writes = append(c.Writes, c04Write{Data: []byte(sb.String()), PauseMs: pause, StallMs: stall})
	}
	for b := 0; b < 7+rng.Intn(4); b++ {
		burst(90, 170, 0)
	}
	burst(102+rng.Intn(3), 650, 500)
	for b := 0; b < 3; b++ {
		burst(90, 170, 0)
	}
	return c, expected
}

func c04Gen(rng *rand.Rand, i int) (c04Case, []string) {
	if i%25 == 7 {
		return c04SlightLag(rng, i)
	}
	c := c04Case{}
	nOld := 1 + rng.Intn(4) // never empty: offset == size must prove that the reader has seeked
	for k := 0; k < nOld; k++ {
		c.Old += fmt.Sprintf("OLD-%d already in the file keep\n", k)
	}
	n := []int{1, 3, 10, 40, 120, 400, 1500}[rng.Intn(7)]
	c.Chunker = []string{"whole", "lines", "bytes", "bytes", "tiny", "burst"}[rng.Intn(6)]
	if c.Chunker == "tiny" && n > 40 {
		n = 40
	}
	if c.Chunker == "bytes" && n > 400 {
		n = 400
	}
	var sb strings.Builder
	var all []string
	for k := 0; k < n; k++ {
		tag := "keep"
		if rng.Intn(3) == 0 {
			tag = "skip"
		}
		l := fmt.Sprintf("id%05d-%d %s grüße 日本 %s", k, i, strings.Repeat("z", rng.Intn(60)), tag)
		if rng.Intn(15) == 0 {
			l = fmt.Sprintf("id%05d-%d %s", k, i, tag) // short
		}
		all = append(all, l)
		sb.WriteString(l + "\n")
	}
	// an unterminated fragment at the very end: must be held back
	sb.WriteString(fmt.Sprintf("id99999-%d partial line without terminator keep", i))
	c.Writes = c04Chunk(rng, sb.String(), c.Chunker)
	total := 0
	for _, w := range c.Writes {
		total += w.PauseMs
	}
	if total > 6000 { // keep a follow below ~6 s of pauses
		scale := float64(6000) / float64(total)
		for k := range c.Writes {
			c.Writes[k].PauseMs = int(float64(c.Writes[k].PauseMs) * scale)
		}
	}
	filter := rng.Intn(2) == 0
	if filter {
		c.Pattern = " keep$"
	} else {
		c.Pattern = "."
	}
	var expected []string
	for _, l := range all {
		if !filter || strings.HasSuffix(l, " keep") {
			expected = append(expected, l+"\n")
		}
	}
	if rng.Intn(5) < 3 {
		c.Regime = "a"
		c.Cap = n + 10
	} else {
		c.Regime = "b"
		c.Cap = []int{1, 2, 10, 100}[rng.Intn(4)]
		c.ConsumeMs = []float64{0, 0.2, 2, 10}[rng.Intn(4)]
		// The percentage only covers the last 100 lines read: with the filter
		// (2 of 3 lines match, so 100 non-matching lines in a row do not occur)
		// the most recent drop is always inside that window.
	}
	return c, expected
}

var idRe = regexp.MustCompile(`^id(\d{5})-`)

func c04(r *vlib.Run) int {
	r.Rule("follows through the real tail reader (fs.NewTailFile.Start) on a file with old content; the harness starts appending only after " +
		"the reader's descriptor offset (/proc/self/fdinfo) equals the file size; appended text (1-1500 lines with multi-byte runes + an " +
		"unterminated fragment at the end) is cut into write() calls by seeded chunkers {whole, per line, byte chunks of 1-4096 cutting " +
		"lines and runes, 1-3 byte chunks, bursts of 500 lines} with pauses 0/1/10/150 ms; filter {none, ' keep$'}. Regime a (queue " +
		"capacity > number of lines): delivered == expected exactly, unmodified, percentage 100, old content and the fragment never " +
		"delivered. Regime b (queue capacity 1-100, paced consumer): delivered is a strictly increasing subsequence, unmodified, and " +
		"after every gap the next delivered line reports < 100. e2e: real dtail (serverless and over SSH) with paced appends. " +
		"distinct = distinct (chunker, sizes, regime) cases; non-trivial = at least 10 appended lines.")
	r.Assume("'the client cannot keep up' is realised as a delivery queue that is full; in regime a the queue can never be full")
	r.Assume("the transmission percentage only covers the last 100 lines read; the filter used matches 2 of 3 lines so a drop is never older than that when the next line is delivered")
	r.Assume("truncation/rotation is not driven (the statement speaks of appends)")
	n := r.N(400, 6000)
	rng := r.Rng("api")
	cases := make([]interface{}, n)
	typed := make([]c04Case, n)
	exps := make([][]string, n)
	for i := range cases {
		typed[i], exps[i] = c04Gen(rng, i)
		cases[i] = typed[i]
	}
	results, crashes := r.RunBatches("c04api", cases, 16, 14, nil, nil)
	for _, cr := range crashes {
		c := typed[cr.Any()]
		c.Writes = nil
		r.Violation("tail-reader-crash", map[string]interface{}{"case": c, "stderr": vlib.Trunc(string(cr.Result.Stderr), 3000)})
	}
	for i, raw := range results {
		if raw == nil {
			continue
		}
		var res c04Result
		json.Unmarshal(raw, &res)
		c04Check(r, i, typed[i], exps[i], &res)
	}
	var hk sync.WaitGroup
	hk.Add(3)
	go func() { defer hk.Done(); c04Housekeeping(r) }()
	go func() { defer hk.Done(); c04Interrupt(r) }()
	go func() { defer hk.Done(); c04ManyFiles(r) }()
	c04E2E(r)
	hk.Wait()
	return n / 2
}

func c04Check(r *vlib.Run, i int, c c04Case, expected []string, res *c04Result) {
	key := ""
	if len(expected) >= 10 {
		key = fmt.Sprintf("%s|%s|cap%d|cons%v|n%d|w%d|%s", c.Regime, c.Chunker, c.Cap, c.ConsumeMs, len(expected), len(c.Writes), c.Pattern)
	}
	r.Eval(key)
	r.SetAdd("cell", fmt.Sprintf("%s/%s/cap%s/filter%v", c.Regime, c.Chunker, sizeClass(c.Cap), c.Pattern != "."))
	if !res.Positioned || res.Err != "" {
		r.Inconclusive("reader-not-positioned")
		return
	}
	r.Count("lines_delivered_and_checked", len(res.Delivered))
	if i < 3 {
		var w []string
		for _, x := range c.Writes {
			if len(w) < 5 {
				w = append(w, fmt.Sprintf("%q+%dms", vlib.Trunc(string(x.Data), 30), x.PauseMs))
			}
		}
		r.Sample(map[string]interface{}{"regime": c.Regime, "chunker": c.Chunker, "cap": c.Cap, "consume_ms": c.ConsumeMs,
			"appended_lines": len(expected), "writes": len(c.Writes), "first_writes": w, "delivered": len(res.Delivered)})
	}
	fail := func(what string, d map[string]interface{}) {
		d["regime"], d["chunker"], d["cap"], d["consume_ms"], d["pattern"] = c.Regime, c.Chunker, c.Cap, c.ConsumeMs, c.Pattern
		d["appended_lines"], d["delivered_lines"], d["n_writes"], d["old"] = len(expected), len(res.Delivered), len(c.Writes), c.Old
		var w []string
		for _, x := range c.Writes {
			if len(w) < 12 {
				w = append(w, fmt.Sprintf("%q+%dms", vlib.Trunc(string(x.Data), 60), x.PauseMs))
			}
		}
		d["first_writes"] = w
		r.Violation(what, d)
	}
	index := map[string]int{}
	for k, e := range expected {
		index[e] = k
	}
	last := -1
	gapBefore := false
	drops := 0
	for k, d := range res.Delivered {
		pos, ok := index[d.Content]
		if !ok {
			what := "delivered-line-was-never-appended-as-such"
			if strings.HasPrefix(d.Content, "OLD-") {
				what = "old-content-delivered"
			} else if strings.Contains(d.Content, "partial line without terminator") {
				what = "unterminated-fragment-delivered"
			}
			fail(what, map[string]interface{}{"delivered": d.Content, "position": k})
			return
		}
		if pos <= last {
			fail("duplicate-or-reordered", map[string]interface{}{"delivered": d.Content, "position": k, "previous_index": last, "index": pos})
			return
		}
		if pos != last+1 {
			gapBefore = true
			drops += pos - last - 1
		}
		if c.Regime == "a" {
			if pos != last+1 {
				fail("line-lost-although-queue-never-full", map[string]interface{}{"missing": expected[last+1], "next_delivered": d.Content})
				return
			}
			if d.Perc != 100 {
				fail("percentage-below-100-without-drop", map[string]interface{}{"line": d.Content, "perc": d.Perc})
				return
			}
		} else if gapBefore {
			if d.Perc >= 100 {
				fail("drop-not-reported-in-percentage", map[string]interface{}{"line_after_gap": d.Content, "perc": d.Perc, "dropped_before": pos - last - 1})
				return
			}
			gapBefore = false
		}
		last = pos
	}
	if c.Regime == "a" && len(res.Delivered) != len(expected) {
		fail("line-lost-although-queue-never-full", map[string]interface{}{"missing_from": expected[len(res.Delivered)]})
		return
	}
	if c.Chunker == "slight-lag" {
		r.Count("slight_lag_runs", 1)
		if drops > 0 && drops <= 6 {
			r.Count("slight_lag_runs_with_1_to_6_drops_after_600_delivered_lines", 1)
		}
	}
	if drops > 0 {
		r.Count("regime_b_runs_with_drops", 1)
		r.Count("regime_b_dropped_lines", drops)
	}
}

// c04E2E: real dtail; the appends start after the child's descriptor sits at
// the end of the file; small paced appends (the queue cannot overflow).
func c04E2E(r *vlib.Run) {
	n := r.N(16, 200)
	rng := r.Rng("e2e")
	fl, err := startFleet(r, "c04", 1, map[string]interface{}{"MaxConcurrentTails": 50, "MaxConnections": 50}, nil, "error")
	if err != nil {
		r.Inconclusive("fleet-start")
	}
	defer fl.Stop()
	dir, _ := filepath.EvalSymlinks(r.Dir("c04e2e"))
	// other sessions on the same server while the follows run: reads that end
	// early (--max) and reads whose client goes away in the middle - whatever
	// they leave behind in the server process must not reach a follow
	if fl != nil {
		var nb bytes.Buffer
		for k := 0; k < 60000; k++ {
			fmt.Fprintf(&nb, "NOISE line %06d of another session's file, never appended to a followed file\n", k)
		}
		noise := fl.WriteFile(0, "noise/big.log", nb.Bytes())
		stopNoise := make(chan struct{})
		var nwg sync.WaitGroup
		for w := 0; w < 2; w++ {
			nwg.Add(1)
			go func(w int) {
				defer nwg.Done()
				for k := 0; ; k++ {
					select {
					case <-stopNoise:
						return
					default:
					}
					if (k+w)%2 == 0 {
						runFleet(r, fl, "dgrep", []string{"--plain", "--files", noise, "--regex", "line 0000", "--max", "2"}, nil)
					} else {
						// a dcat whose client is killed after 150 ms
						full := append(fl.ClientArgs(), "--logger", "stdout", "--logLevel", "error", "--plain", "--files", noise)
						c := exec.Command(r.Bin("dcat"), full...)
						c.Env, c.Dir = append(vlib.BaseEnv(fl.Home), fl.ClientEnv()...), fl.Home
						if c.Start() == nil {
							time.Sleep(150 * time.Millisecond)
							c.Process.Kill()
							c.Wait()
						}
					}
					r.Count("e2e_other_sessions_on_the_followed_server", 1)
				}
			}(w)
		}
		defer func() { close(stopNoise); nwg.Wait() }()
	}
	seeds := make([]int64, n)
	for i := range seeds {
		seeds[i] = rng.Int63()
	}
	vlib.Parallel(n, 8, func(i int) {
		crng := rand.New(rand.NewSource(seeds[i]))
		ssh := fl != nil && i%3 == 0
		path := filepath.Join(dir, fmt.Sprintf("e%d.log", i))
		os.WriteFile(path, []byte("OLD-0 keep\nOLD-1 keep\n"), 0644)
		defer os.Remove(path)
		args := []string{"--noColor", "--shutdownAfter", "5", "--files", path}
		var pid int
		var pmu sync.Mutex
		cmd := vlib.Cmd{OnStart: func(p int) { pmu.Lock(); pid = p; pmu.Unlock() }, Watchdog: 120 * time.Second}
		var serverPid int
		if ssh {
			cmd.Path = r.Bin("dtail")
			cmd.Args = append(append(fl.ClientArgs(), "--logger", "stdout", "--logLevel", "error"), args...)
			cmd.Env, cmd.Dir = fl.ClientEnv(), fl.Home
			serverPid = fl.Servers[0].D.Pid()
		} else {
			home := serverlessHome(r)
			cmd.Path = r.Bin("dtail")
			cmd.Args = append([]string{"--cfg", "none", "--logger", "stdout", "--logLevel", "error"}, args...)
			cmd.Env, cmd.Dir = []string{"HOME=" + home}, home
		}
		nLines := 20 + crng.Intn(200)
		var writerDone time.Time
		var expected []string
		var wg sync.WaitGroup
		wg.Add(1)
		positioned := false
		go func() {
			defer wg.Done()
			deadline := time.Now().Add(4 * time.Second)
			for time.Now().Before(deadline) {
				p := serverPid
				if !ssh {
					pmu.Lock()
					p = pid
					pmu.Unlock()
				}
				if p != 0 && fdPos(p, path) == 22 {
					positioned = true
					break
				}
				time.Sleep(3 * time.Millisecond)
			}
			if !positioned {
				return
			}
			fd, _ := os.OpenFile(path, os.O_APPEND|os.O_WRONLY, 0644)
			defer fd.Close()
			var buf bytes.Buffer
			for k := 0; k < nLines; k++ {
				l := fmt.Sprintf("id%05d-%d e2e line ünï", k, i)
				if k%13 == 7 {
					l = "" // an empty line is a line, too
				}
				if k%37 == 5 {
					// a very long line (longer than the transport's copy buffer, below the split limit)
					l += " " + strings.Repeat("L", []int{40000, 70000, 140000}[(k/37)%3])
				}
				expected = append(expected, l)
				buf.WriteString(l + "\n")
			}
			text := buf.String() + "id99999 partial"
			for len(text) > 0 {
				// at most ~8 lines per write and >= 20 ms between writes: far below
				// the queue capacity of 100 per 100 ms poll of the follower
				c := 1 + crng.Intn(200)
				if nl := strings.IndexByte(text, '\n'); nl > 2000 {
					c = 8192 + crng.Intn(16384) // inside a very long line: bigger pieces, still several per line
				}
				if c > len(text) {
					c = len(text)
				}
				fd.WriteString(text[:c])
				text = text[c:]
				time.Sleep(time.Duration(20+crng.Intn(30)) * time.Millisecond)
			}
			writerDone = time.Now()
		}()
		res := vlib.RunCmd(cmd)
		exitAt := time.Now()
		wg.Wait()
		r.Eval(fmt.Sprintf("e2e|%v|%d", ssh, nLines))
		r.Count("e2e_follows", 1)
		if res.TimedOut || !positioned {
			r.Inconclusive("dtail-e2e-not-positioned-or-watchdog")
			return
		}
		// parse REMOTE|host|perc|count|id|payload
		var got []string
		bad := ""
		for _, l := range strings.Split(string(res.Stdout), "\n") {
			if !strings.HasPrefix(l, "REMOTE|") {
				continue
			}
			p := strings.SplitN(l, "|", 6)
			if len(p) != 6 {
				bad = "short record: " + l
				break
			}
			if strings.TrimSpace(p[2]) != "100" {
				bad = "percentage " + p[2] + " although nothing can have been dropped: " + l
			}
			got = append(got, p[5])
		}
		// the last record may be cut when dtail shuts down
		if len(got) > len(expected) {
			bad = fmt.Sprintf("%d lines delivered, %d appended", len(got), len(expected))
		}
		for k := range got {
			if k < len(expected) && got[k] != expected[k] && bad == "" {
				if k == len(got)-1 && strings.HasPrefix(expected[k], got[k]) {
					continue
				}
				bad = fmt.Sprintf("delivered #%d is %q, appended #%d is %q", k, got[k], k, expected[k])
			}
		}
		// (on a loaded machine the client may start late and end while the writer
		// is still at work: completeness only if the writer was done 2 s earlier)
		if bad == "" && len(got) < len(expected)-1 && !writerDone.IsZero() && writerDone.Before(exitAt.Add(-2*time.Second)) {
			bad = fmt.Sprintf("only %d of %d appended lines delivered", len(got), len(expected))
		}
		r.Count("e2e_lines_checked", len(got))
		if bad != "" || res.Panicked() {
			r.Violation("e2e-follow", map[string]interface{}{"ssh": ssh, "why": bad, "appended": len(expected), "delivered": len(got),
				"exit": res.Exit, "stderr": vlib.Trunc(string(res.Stderr), 1000), "stdout_tail": vlib.Trunc(lastN(string(res.Stdout), 600), 700)})
		}
	})
}

// c04ManyFiles: one serverless dtail follows several files at once (a glob);
// every file gets lines appended; all of them have to arrive, per file in
// order, with their file's label.
func c04ManyFiles(r *vlib.Run) {
	n := r.N(2, 8)
	dir, _ := filepath.EvalSymlinks(r.Dir("c04many"))
	vlib.Parallel(n, 4, func(i int) {
		sub := filepath.Join(dir, fmt.Sprintf("m%d", i))
		os.MkdirAll(sub, 0755)
		defer os.RemoveAll(sub)
		nFiles := 4 + i%4
		var paths []string
		for f := 0; f < nFiles; f++ {
			p := filepath.Join(sub, fmt.Sprintf("f%d.log", f))
			os.WriteFile(p, []byte("OLD-0 keep\nOLD-1 keep\n"), 0644)
			paths = append(paths, p)
		}
		home := serverlessHome(r)
		var pid int
		var pmu sync.Mutex
		cmd := vlib.Cmd{Path: r.Bin("dtail"), Dir: home, Watchdog: 120 * time.Second,
			Args: []string{"--cfg", "none", "--logger", "stdout", "--logLevel", "error", "--noColor", "--shutdownAfter", "13", "--files", filepath.Join(sub, "*.log")},
			Env:  []string{"HOME=" + home}, OnStart: func(p int) { pmu.Lock(); pid = p; pmu.Unlock() }}
		expected := make([][]string, nFiles)
		var wg sync.WaitGroup
		wg.Add(1)
		positioned := 0
		var writerDone time.Time
		go func() {
			defer wg.Done()
			// start once the files that can be followed at all are positioned (the
			// descriptor offsets stop changing), at the latest after 2.5 s
			var startedAt time.Time
			for {
				pmu.Lock()
				p := pid
				pmu.Unlock()
				if p != 0 && startedAt.IsZero() {
					startedAt = time.Now()
				}
				// bounded progress: 6 s after the client process exists every file
				// of the glob is being followed (it takes milliseconds)
				if !startedAt.IsZero() && time.Since(startedAt) > 6*time.Second {
					break
				}
				positioned = 0
				if p != 0 {
					for _, f := range paths {
						if fdPos(p, f) == 22 {
							positioned++
						}
					}
				}
				if positioned == nFiles {
					break
				}
				time.Sleep(5 * time.Millisecond)
			}
			for k := 0; k < 40; k++ {
				for f, p := range paths {
					l := fmt.Sprintf("many%03d-file%d-%d appended to one of several followed files", k, f, i)
					expected[f] = append(expected[f], l)
					if fd, err := os.OpenFile(p, os.O_APPEND|os.O_WRONLY, 0644); err == nil {
						fd.WriteString(l + "\n")
						fd.Close()
					}
				}
				time.Sleep(40 * time.Millisecond)
			}
			writerDone = time.Now()
		}()
		res := vlib.RunCmd(cmd)
		exitAt := time.Now()
		wg.Wait()
		r.Eval(fmt.Sprintf("manyfiles|%d|%d", i, nFiles))
		r.Count("follows_of_several_files_at_once", 1)
		if res.TimedOut {
			r.Inconclusive("dtail-manyfiles-watchdog")
			return
		}
		got := make([][]string, nFiles)
		bad := ""
		for _, l := range strings.Split(string(res.Stdout), "\n") {
			if !strings.HasPrefix(l, "REMOTE|") {
				continue
			}
			p := strings.SplitN(l, "|", 6)
			if len(p) != 6 {
				continue
			}
			var k, f, ii int
			if _, err := fmt.Sscanf(p[5], "many%03d-file%d-%d", &k, &f, &ii); err != nil || f < 0 || f >= nFiles {
				if !strings.HasPrefix(p[5], "OLD-") {
					continue // a cut last record
				}
				bad = "content that was in the file before the follow began was delivered: " + p[5]
				break
			}
			if p[4] != fmt.Sprintf("f%d.log", f) {
				bad = fmt.Sprintf("line of file f%d.log labelled %q", f, p[4])
				break
			}
			got[f] = append(got[f], p[5])
		}
		if positioned < nFiles && bad == "" {
			bad = fmt.Sprintf("only %d of the %d files of the glob were being followed 6 s after the client had started", positioned, nFiles)
		}
		complete := !writerDone.IsZero() && writerDone.Before(exitAt.Add(-2*time.Second))
		for f := 0; f < nFiles && bad == ""; f++ {
			for k := range got[f] {
				if k >= len(expected[f]) || got[f][k] != expected[f][k] {
					bad = fmt.Sprintf("file f%d.log: delivered #%d is %q", f, k, got[f][k])
					break
				}
			}
			if bad == "" && complete && len(got[f]) < len(expected[f]) {
				bad = fmt.Sprintf("file f%d.log: only %d of %d appended lines delivered (%d of %d files were positioned when the writer began)", f, len(got[f]), len(expected[f]), positioned, nFiles)
			}
			r.Count("manyfiles_lines_checked", len(got[f]))
		}
		if bad != "" || res.Panicked() {
			r.Violation("follow-of-several-files", map[string]interface{}{"why": bad, "files": nFiles, "exit": res.Exit, "stderr": vlib.Trunc(string(res.Stderr), 800)})
		}
	})
}

// c04Interrupt: the user hits Ctrl+C once during a follow: dtail prints its
// connection statistics, holds its output back for a few seconds and resumes,
// while the file keeps growing and stdout is a pipe read at a moderate pace.
// What is delivered (before, during and after the pause) must be appended
// lines, each at most once, in the order they were appended.
func c04Interrupt(r *vlib.Run) {
	n := r.N(5, 16)
	dir, _ := filepath.EvalSymlinks(r.Dir("c04int"))
	vlib.Parallel(n, 5, func(i int) {
		path := filepath.Join(dir, fmt.Sprintf("i%d.log", i))
		os.WriteFile(path, []byte("OLD-0 keep\nOLD-1 keep\n"), 0644)
		defer os.Remove(path)
		home := serverlessHome(r)
		var pid int
		var pmu sync.Mutex
		cmd := vlib.Cmd{Path: r.Bin("dtail"), Dir: home, Watchdog: 120 * time.Second,
			Args: []string{"--cfg", "none", "--logger", "stdout", "--logLevel", "error", "--noColor", "--shutdownAfter", "10", "--files", path},
			Env:  []string{"HOME=" + home}}
		appended := map[string]int{}
		var amu sync.Mutex
		var wg sync.WaitGroup
		wg.Add(1)
		positioned := false
		go func() {
			defer wg.Done()
			deadline := time.Now().Add(4 * time.Second)
			for time.Now().Before(deadline) {
				pmu.Lock()
				p := pid
				pmu.Unlock()
				if p != 0 && fdPos(p, path) == 22 {
					positioned = true
					break
				}
				time.Sleep(3 * time.Millisecond)
			}
			if !positioned {
				return
			}
			fd, _ := os.OpenFile(path, os.O_APPEND|os.O_WRONLY, 0644)
			defer fd.Close()
			start := time.Now()
			signalled := false
			for k := 0; time.Since(start) < 8*time.Second; k++ {
				l := fmt.Sprintf("int%06d-%d line appended around an interrupt", k, i)
				amu.Lock()
				appended[l] = k
				amu.Unlock()
				fd.WriteString(l + "\n")
				time.Sleep(time.Duration(20+10*(i%3)) * time.Millisecond)
				if !signalled && time.Since(start) > 1500*time.Millisecond {
					signalled = true
					pmu.Lock()
					syscall.Kill(pid, syscall.SIGINT)
					pmu.Unlock()
				}
			}
		}()
		res, out := runPacedPid(cmd, pacing{Kind: "slow", Chunk: 200, DelayMs: 6}, 4096, func(p int) { pmu.Lock(); pid = p; pmu.Unlock() })
		wg.Wait()
		r.Eval(fmt.Sprintf("interrupt|%d", i))
		r.Count("interrupted_follows", 1)
		if res.TimedOut || !positioned {
			r.Inconclusive("dtail-interrupt-not-positioned-or-watchdog")
			return
		}
		if bytes.Contains(out, []byte("Connection stats")) {
			r.Count("interrupted_follows_stats_seen", 1)
		}
		last, bad, delivered := -1, "", 0
		seen := map[string]bool{}
		lines := strings.Split(string(out), "\n")
		for li, l := range lines {
			if !strings.HasPrefix(l, "REMOTE|") || li == len(lines)-1 {
				continue
			}
			p := strings.SplitN(l, "|", 6)
			if len(p) != 6 {
				continue
			}
			amu.Lock()
			k, ok := appended[p[5]]
			amu.Unlock()
			switch {
			case !ok:
				bad = fmt.Sprintf("delivered line was never appended as such: %q", vlib.Trunc(p[5], 120))
			case seen[p[5]]:
				bad = fmt.Sprintf("line delivered twice: %q", p[5])
			case k < last:
				bad = fmt.Sprintf("line #%d delivered after line #%d", k, last)
			}
			if bad != "" {
				break
			}
			seen[p[5]] = true
			last = k
			delivered++
		}
		r.Count("interrupted_follow_lines_checked", delivered)
		if bad != "" || res.Panicked() {
			r.Violation("follow-output-out-of-order-around-an-interrupt", map[string]interface{}{"why": bad, "delivered": delivered, "exit": res.Exit,
				"stderr": vlib.Trunc(string(res.Stderr), 800)})
		}
	})
}

// c04Housekeeping: a follow that lasts through several of the follower's
// periodic housekeeping rounds (truncation check every 3 s) while a writer
// appends all the time. The hook point fs.eof (follower saw the end of the
// file) carries a delay, which widens the window between "read returned EOF"
// and whatever the follower does next, so that appends fall into it at every
// round. Oracle as in the e2e tier: every appended line exactly once, in
// order, 100% transmitted (about 300 lines/s, far below the queue capacity).
func c04Housekeeping(r *vlib.Run) {
	n := r.N(4, 12)
	dir, _ := filepath.EvalSymlinks(r.Dir("c04hk"))
	vlib.Parallel(n, 4, func(i int) {
		path := filepath.Join(dir, fmt.Sprintf("h%d.log", i))
		os.WriteFile(path, []byte("OLD-0 keep\nOLD-1 keep\n"), 0644)
		defer os.Remove(path)
		followed := path
		if i%2 == 1 {
			// the followed name is a symbolic link to the file (current.log -> app-0001.log)
			followed = filepath.Join(dir, fmt.Sprintf("current%d.log", i))
			os.Symlink(filepath.Base(path), followed)
			defer os.Remove(followed)
			r.Count("housekeeping_follows_through_a_symbolic_link", 1)
		}
		home := serverlessHome(r)
		var pid int
		var pmu sync.Mutex
		delay := []int{25, 60, 8, 120}[i%4]
		cmd := vlib.Cmd{Path: r.Bin("dtail"), Dir: home, Watchdog: 120 * time.Second,
			Args:    []string{"--cfg", "none", "--logger", "stdout", "--logLevel", "error", "--noColor", "--shutdownAfter", "10", "--files", followed},
			Env:     []string{"HOME=" + home, fmt.Sprintf("VERIF_POINTS=fs.eof=sleep(%d)", delay)},
			OnStart: func(p int) { pmu.Lock(); pid = p; pmu.Unlock() }}
		var expected []string
		var appendedAt []time.Time
		var wg sync.WaitGroup
		wg.Add(1)
		positioned := false
		go func() {
			defer wg.Done()
			deadline := time.Now().Add(4 * time.Second)
			for time.Now().Before(deadline) {
				pmu.Lock()
				p := pid
				pmu.Unlock()
				if p != 0 && fdPos(p, path) == 22 {
					positioned = true
					break
				}
				time.Sleep(3 * time.Millisecond)
			}
			if !positioned {
				return
			}
			fd, _ := os.OpenFile(path, os.O_APPEND|os.O_WRONLY, 0644)
			defer fd.Close()
			start := time.Now()
			for k := 0; time.Since(start) < 7500*time.Millisecond; k++ {
				l := fmt.Sprintf("hk%06d-%d busy writer line", k, i)
				expected = append(expected, l)
				fd.WriteString(l + "\n")
				appendedAt = append(appendedAt, time.Now())
				time.Sleep(3 * time.Millisecond)
			}
		}()
		res := vlib.RunCmd(cmd)
		exitAt := time.Now()
		wg.Wait()
		// completeness is only required of lines appended at least 3 s before the
		// follow ended (on a loaded machine the client may start late and end
		// while the writer is still at work)
		must := 0
		for must < len(appendedAt) && appendedAt[must].Before(exitAt.Add(-3*time.Second)) {
			must++
		}
		r.Eval(fmt.Sprintf("housekeeping|%d|%d", i, delay))
		r.Count("housekeeping_follows", 1)
		if res.TimedOut || !positioned {
			r.Inconclusive("dtail-housekeeping-not-positioned-or-watchdog")
			return
		}
		var got []string
		bad := ""
		for _, l := range strings.Split(string(res.Stdout), "\n") {
			if !strings.HasPrefix(l, "REMOTE|") {
				continue
			}
			p := strings.SplitN(l, "|", 6)
			if len(p) != 6 {
				bad = "short record: " + l
				break
			}
			if strings.TrimSpace(p[2]) != "100" && bad == "" {
				bad = "percentage " + p[2] + " although nothing can have been dropped: " + l
			}
			got = append(got, p[5])
		}
		for k := range got {
			if bad != "" {
				break
			}
			if k >= len(expected) {
				bad = fmt.Sprintf("%d lines delivered, %d appended", len(got), len(expected))
			} else if got[k] != expected[k] {
				bad = fmt.Sprintf("delivered #%d is %q, appended #%d is %q", k, got[k], k, expected[k])
			}
		}
		if bad == "" && len(got) < must {
			bad = fmt.Sprintf("only %d lines delivered, %d had been appended 3 s or more before the follow ended (%d in all)", len(got), must, len(expected))
		}
		r.Count("housekeeping_lines_checked", len(got))
		if bad != "" || res.Panicked() {
			r.Violation("follow-loses-lines-around-housekeeping", map[string]interface{}{"why": bad, "appended": len(expected), "delivered": len(got),
				"eof_hook_delay_ms": delay, "exit": res.Exit, "stderr": vlib.Trunc(string(res.Stderr), 1000)})
		}
	})
}

func lastN(s string, n int) string {
	if len(s) <= n {
		return s
	}
	return s[len(s)-n:]
}
