package props

import (
	"encoding/base64"
	"fmt"
	"math/rand"
	"os"
	"path/filepath"
	"strings"
	"time"

	"github.com/mimecast/dtail/verifharness/internal/vlib"
	"golang.org/x/crypto/ssh"
	"golang.org/x/crypto/ssh/knownhosts"
)

// C17 — the client talks only to servers whose host key is trusted.

func init() {
	Drivers["C17"] = c17
}

type c17Server struct {
	port   int
	key    *vlib.Key
	entry  string // none | right | right-hashed | right-multi | wrong
	known  bool
	fake   *fakeSSHDProc
	keyIdx int
}

func khLine(addr string, k *vlib.Key) string {
	return knownhosts.Line([]string{addr}, k.Signer.PublicKey())
}

func khHashed(addr string, k *vlib.Key) string {
	pk := k.Signer.PublicKey()
	return knownhosts.HashHostname(knownhosts.Normalize(addr)) + " " + pk.Type() + " " + base64.StdEncoding.EncodeToString(pk.Marshal())
}

func c17(r *vlib.Run) int {
	r.Rule("per case: a scratch HOME whose known_hosts is assembled from plain, [host]:port, multi-host, hashed, @cert-authority and @revoked " +
		"(unrelated hosts) lines, comments and blank lines, plus for each of 1-4 contacted fake SSH servers {no entry, right key (plain, " +
		"hashed, multi-host), entry with a different key}; the real dcat is run with scripted prompt answers {y, n, a, d then y, garbage " +
		"then n} or --trustAllHosts. Oracle: a server's log shows an opened shell and received command bytes iff its key was known, or " +
		"the user approved, or trust-all; refused servers receive nothing; the file is byte-identical when nothing was trusted, " +
		"otherwise it has an entry for each newly trusted address and every unrelated old line survives unmodified and in order; a " +
		"second run needs no prompt. Reconnect cases: dtail reconnects to a server which then presents a different key. distinct = " +
		"distinct (file layout, entries, answer) cases; non-trivial = at least one contacted server is unknown.")
	r.Assume("known_hosts lines longer than 64 KiB are not generated (bufio.Scanner limit of the rewriting code)")
	r.Assume("clients run with --logger none (the prompt dead-locks with the stdout logger at log level error; a liveness matter outside this property)")
	n := r.N(96, 1600)
	rng := r.Rng("cases")
	// key pool
	var keys []*vlib.Key
	for i := 0; i < 10; i++ {
		k, err := vlib.GenKey([]string{"ed25519", "rsa", "ecdsa256"}[i%3])
		if err != nil {
			r.Inconclusive("keygen")
			return 1
		}
		keys = append(keys, k)
	}
	keyDir := r.Dir("c17keys")
	keyFiles := make([]string, len(keys))
	for i, k := range keys {
		keyFiles[i] = filepath.Join(keyDir, fmt.Sprintf("hk%d.pem", i))
		os.WriteFile(keyFiles[i], k.PEM, 0600)
	}
	client := clientKey()
	seeds := make([]int64, n)
	for i := range seeds {
		seeds[i] = rng.Int63()
	}
	vlib.Parallel(n, 12, func(i int) {
		crng := rand.New(rand.NewSource(seeds[i]))
		if i%16 == 15 {
			c17EntryRemoved(r, i, crng, keys, keyFiles, client)
			return
		}
		if i%16 == 11 {
			c17Damaged(r, i, crng, keys, keyFiles, client)
			return
		}
		if i%16 == 9 {
			c17TrustAllMany(r, i, crng, keys, keyFiles, client)
			return
		}
		if i%8 == 5 {
			c17OutputModes(r, i, crng, keys, keyFiles, client)
			return
		}
		if i%8 == 7 {
			c17Reconnect(r, i, crng, keys, keyFiles, client)
			return
		}
		if i%8 == 3 {
			c17Staggered(r, i, crng, keys, keyFiles, client)
			return
		}
		c17Case(r, i, crng, keys, keyFiles, client)
	})
	return n / 2
}

func c17Unrelated(rng *rand.Rand, keys []*vlib.Key) []string {
	k := func() *vlib.Key { return keys[5+rng.Intn(4)] } // keys 5..8 are never server keys; 9 is the revoked one
	var ls []string
	for j := 0; j < rng.Intn(8); j++ {
		switch rng.Intn(9) {
		case 0:
			ls = append(ls, "# some comment")
		case 1:
			ls = append(ls, "")
		case 2:
			ls = append(ls, khLine(fmt.Sprintf("unrelated%d.example.com:22", rng.Intn(50)), k()))
		case 3:
			ls = append(ls, knownhosts.Line([]string{fmt.Sprintf("multi%d.example.com:2222", rng.Intn(50)), "10.1.2.3:2222"}, k().Signer.PublicKey()))
		case 4:
			ls = append(ls, khHashed(fmt.Sprintf("hashed%d.example.org:22", rng.Intn(50)), k()))
		case 5:
			ls = append(ls, "@cert-authority *.example.net "+strings.SplitN(khLine("x:22", k()), " ", 2)[1])
		case 6:
			ls = append(ls, "@revoked "+khLine(fmt.Sprintf("revoked%d.example.com:22", rng.Intn(9)), keys[9]))
		case 7:
			ls = append(ls, khLine(fmt.Sprintf("127.0.0.1:%d", 1+rng.Intn(1000)), k())) // same host, other port
		case 8:
			ls = append(ls, "   ")
		}
	}
	return ls
}

func c17Case(r *vlib.Run, i int, rng *rand.Rand, keys []*vlib.Key, keyFiles []string, client *vlib.Key) {
	nSrv := 1 + rng.Intn(4)
	var servers []*c17Server
	for s := 0; s < nSrv; s++ {
		sv := &c17Server{port: vlib.FreePort(), keyIdx: rng.Intn(5)}
		sv.key = keys[sv.keyIdx]
		sv.entry = []string{"none", "none", "right", "right-hashed", "right-multi", "wrong"}[rng.Intn(6)]
		sv.known = strings.HasPrefix(sv.entry, "right")
		servers = append(servers, sv)
	}
	// distinct ports
	seen := map[int]bool{}
	for _, sv := range servers {
		for seen[sv.port] || sv.port == 0 {
			sv.port = vlib.FreePort()
		}
		seen[sv.port] = true
	}
	home, keyFile := r.ClientHome(fmt.Sprintf("c17-%d", i), client)
	defer os.RemoveAll(home)
	var lines []string
	lines = append(lines, c17Unrelated(rng, keys)...)
	for _, sv := range servers {
		addr := fmt.Sprintf("127.0.0.1:%d", sv.port)
		switch sv.entry {
		case "right":
			lines = append(lines, khLine(addr, sv.key))
		case "right-hashed":
			lines = append(lines, khHashed(addr, sv.key))
		case "right-multi":
			lines = append(lines, knownhosts.Line([]string{fmt.Sprintf("somehost.example.com:%d", sv.port), addr}, sv.key.Signer.PublicKey()))
		case "wrong":
			lines = append(lines, khLine(addr, keys[(sv.keyIdx+1)%5]))
		}
		lines = append(lines, c17Unrelated(rng, keys)...)
	}
	rng.Shuffle(len(lines), func(a, b int) { lines[a], lines[b] = lines[b], lines[a] })
	old := strings.Join(lines, "\n")
	if len(lines) > 0 && rng.Intn(4) != 0 {
		old += "\n"
	}
	khPath := filepath.Join(home, ".ssh", "known_hosts")
	os.WriteFile(khPath, []byte(old), 0600)

	answer := []string{"y", "n", "a", "d+y", "garbage+n", "trustall", "yes", "no"}[rng.Intn(8)]
	stdin := map[string]string{"y": "y\n", "n": "n\n", "a": "a\n", "d+y": "d\ny\n", "garbage+n": "maybe\n\nq\nn\n", "trustall": "n\nn\n", "yes": "yes\n", "no": "no\n"}[answer]
	approve := answer == "y" || answer == "a" || answer == "d+y" || answer == "trustall" || answer == "yes"

	// start the fake servers
	for si, sv := range servers {
		f, err := startFakeSSHD(r, fmt.Sprintf("c17-%d-%d", i, si), []int{sv.port}, []string{keyFiles[sv.keyIdx]}, "", 200)
		if err != nil {
			r.Inconclusive("fakesshd")
			for _, x := range servers {
				x.fake.Stop()
			}
			return
		}
		sv.fake = f
	}
	defer func() {
		for _, sv := range servers {
			sv.fake.Stop()
		}
	}()
	var addrs []string
	anyUnknown := false
	for _, sv := range servers {
		addrs = append(addrs, fmt.Sprintf("127.0.0.1:%d", sv.port))
		if !sv.known {
			anyUnknown = true
		}
	}
	args := []string{"--cfg", "none", "--logger", "none", "--key", keyFile, "--user", "tester", "--servers", strings.Join(addrs, ","), "--files", "/var/log/x.log"}
	if answer == "trustall" {
		args = append(args, "--trustAllHosts")
	}
	res := vlib.RunCmd(vlib.Cmd{Path: r.Bin("dcat"), Args: args, Env: []string{"HOME=" + home}, Dir: home, Stdin: []byte(stdin), Watchdog: 90 * time.Second})
	key := ""
	if anyUnknown {
		var ents []string
		for _, sv := range servers {
			ents = append(ents, sv.entry)
		}
		key = fmt.Sprintf("%v|%s|%x", ents, answer, hashStrings(lines))
	}
	r.Eval(key)
	r.SetAdd("answer", answer)
	for _, sv := range servers {
		r.SetAdd("entry_kind", sv.entry)
	}
	if i < 3 {
		r.Sample(map[string]interface{}{"known_hosts_lines": len(lines), "servers": len(servers), "answer": answer,
			"entries": func() []string {
				var e []string
				for _, sv := range servers {
					e = append(e, sv.entry)
				}
				return e
			}()})
	}
	if res.TimedOut || res.Hung {
		r.Inconclusive("dcat-watchdog-or-hung")
		return
	}
	detail := func() map[string]interface{} {
		var ents []string
		for _, sv := range servers {
			ents = append(ents, fmt.Sprintf("127.0.0.1:%d %s", sv.port, sv.entry))
		}
		after, _ := os.ReadFile(khPath)
		return map[string]interface{}{"servers": ents, "answer": answer, "known_hosts_before": vlib.Trunc(old, 3000),
			"known_hosts_after": vlib.Trunc(string(after), 3000), "exit": res.Exit, "stderr": vlib.Trunc(string(res.Stderr), 800)}
	}
	if res.Panicked() {
		r.Violation("client-crash", detail())
		return
	}
	trusted := map[string]bool{} // normalized addresses newly trusted
	ok := true
	for _, sv := range servers {
		shell, data := false, false
		for _, e := range sv.fake.Events() {
			if e.Ev == "shell" {
				shell = true
			}
			if e.Ev == "data" {
				data = true
			}
		}
		want := sv.known || approve
		if (shell && data) != want || (!want && (shell || data)) {
			d := detail()
			d["server"] = fmt.Sprintf("127.0.0.1:%d (%s)", sv.port, sv.entry)
			d["shell_opened"], d["commands_received"], d["should_be_contacted"] = shell, data, want
			what := "trusted-server-not-contacted"
			if !want {
				what = "untrusted-server-received-commands"
			}
			r.Violation(what, d)
			ok = false
		}
		if want {
			r.Count("servers_contacted", 1)
		} else {
			r.Count("servers_refused", 1)
		}
		if !sv.known && approve {
			trusted[knownhosts.Normalize(fmt.Sprintf("127.0.0.1:%d", sv.port))] = true
		}
	}
	if !ok {
		return
	}
	after, _ := os.ReadFile(khPath)
	if len(trusted) == 0 {
		if string(after) != old {
			d := detail()
			r.Violation("known-hosts-changed-although-nothing-was-trusted", d)
		}
		return
	}
	// entries added, unrelated lines intact and in order
	newLines := strings.Split(strings.TrimSuffix(string(after), "\n"), "\n")
	for a := range trusted {
		found := false
		for _, l := range newLines {
			if strings.HasPrefix(l, a+" ") {
				found = true
			}
		}
		if !found {
			d := detail()
			d["missing_entry_for"] = a
			r.Violation("newly-trusted-host-not-recorded", d)
			return
		}
	}
	pos := 0
	for _, l := range strings.Split(strings.TrimSuffix(old, "\n"), "\n") {
		first := strings.SplitN(l, " ", 2)[0]
		if trusted[first] {
			continue // entry of a replaced address
		}
		if old == "" {
			break
		}
		found := false
		for pos < len(newLines) {
			if newLines[pos] == l {
				found = true
				pos++
				break
			}
			pos++
		}
		if !found {
			d := detail()
			d["lost_or_modified_line"] = l
			r.Violation("unrelated-known-hosts-entry-lost", d)
			return
		}
	}
	r.Count("rewrites_checked", 1)
	// second run: no prompt needed
	firstRunEvents := map[int]int{}
	for _, sv := range servers {
		firstRunEvents[sv.port] = len(sv.fake.Events())
	}
	args2 := []string{"--cfg", "none", "--logger", "none", "--key", keyFile, "--user", "tester", "--servers", strings.Join(addrs, ","), "--files", "/var/log/x.log"}
	res2 := vlib.RunCmd(vlib.Cmd{Path: r.Bin("dcat"), Args: args2, Env: []string{"HOME=" + home}, Dir: home, Stdin: []byte("n\nn\nn\n"), Watchdog: 90 * time.Second})
	if res2.TimedOut || res2.Hung {
		r.Inconclusive("second-run-watchdog")
		return
	}
	for _, sv := range servers {
		shell := false
		for _, e := range sv.fake.Events()[firstRunEvents[sv.port]:] {
			if e.Ev == "shell" {
				shell = true
			}
		}
		if !shell {
			d := detail()
			d["server"] = fmt.Sprintf("127.0.0.1:%d (%s)", sv.port, sv.entry)
			r.Violation("second-run-did-not-trust-recorded-host", d)
			return
		}
	}
	r.Count("second_runs_without_prompt", 1)
}

// c17Reconnect: dtail (which reconnects) meets a server that presents a
// different host key on the second connection.
func c17Reconnect(r *vlib.Run, i int, rng *rand.Rand, keys []*vlib.Key, keyFiles []string, client *vlib.Key) {
	port := vlib.FreePort()
	k1, k2 := rng.Intn(5), 0
	for k2 = rng.Intn(5); k2 == k1; k2 = rng.Intn(5) {
	}
	firstKnown := rng.Intn(2) == 0
	home, keyFile := r.ClientHome(fmt.Sprintf("c17r-%d", i), client)
	defer os.RemoveAll(home)
	addr := fmt.Sprintf("127.0.0.1:%d", port)
	lines := c17Unrelated(rng, keys)
	if firstKnown {
		lines = append(lines, khLine(addr, keys[k1]))
	}
	os.WriteFile(filepath.Join(home, ".ssh", "known_hosts"), []byte(strings.Join(lines, "\n")+"\n"), 0600)
	f, err := startFakeSSHD(r, fmt.Sprintf("c17r-%d", i), []int{port}, []string{keyFiles[k1], keyFiles[k2]}, "", 200)
	if err != nil {
		r.Inconclusive("fakesshd")
		return
	}
	defer f.Stop()
	// first prompt (if the first key is unknown): yes; every later prompt: no
	stdin := "n\nn\nn\nn\nn\nn\n"
	if !firstKnown {
		stdin = "y\n" + stdin
	}
	args := []string{"--cfg", "none", "--logger", "none", "--key", keyFile, "--user", "tester", "--servers", addr, "--files", "/var/log/x.log", "--shutdownAfter", "9"}
	// keep stdin open after the scripted answers (EOF would make the prompt spin)
	pr, pw, _ := os.Pipe()
	pw.WriteString(stdin)
	defer pw.Close()
	path := filepath.Join(home, "stdin.fifo")
	_ = path
	res := runWithStdinFile(r, "dtail", args, home, pr)
	pr.Close()
	r.Eval(fmt.Sprintf("reconnect|%v|%d|%d", firstKnown, k1, k2))
	r.Count("reconnect_cases", 1)
	if res.TimedOut {
		r.Inconclusive("dtail-watchdog")
		return
	}
	shellByConn := map[int]bool{}
	keyByConn := map[int]int{}
	conns := 0
	for _, e := range f.Events() {
		if e.Ev == "conn" {
			conns++
			keyByConn[e.Conn] = e.Key
		}
		if e.Ev == "shell" || e.Ev == "data" {
			shellByConn[e.Conn] = true
		}
	}
	r.Max("reconnect_max_connections_seen", conns)
	if conns >= 2 {
		r.Count("reconnect_cases_with_second_connection", 1)
	}
	if !shellByConn[0] {
		r.Violation("trusted-server-not-contacted", map[string]interface{}{"scenario": "reconnect", "first_key_known": firstKnown, "connections": conns})
		return
	}
	for c, sh := range shellByConn {
		if sh && keyByConn[c] != 0 {
			r.Violation("untrusted-server-received-commands", map[string]interface{}{"scenario": "server presented a different host key on reconnect; the user answered no",
				"connection": c, "first_key_known": firstKnown, "connections": conns})
			return
		}
	}
}

// c17OutputModes: the output options (--plain, --quiet, --noColor, spartan
// combinations) have nothing to do with trust: an unknown host the user does not
// approve (answer no, or no answer at all) receives no commands with any of
// them, and a known host is served with all of them.
func c17OutputModes(r *vlib.Run, i int, rng *rand.Rand, keys []*vlib.Key, keyFiles []string, client *vlib.Key) {
	port := vlib.FreePort()
	k1 := rng.Intn(5)
	home, keyFile := r.ClientHome(fmt.Sprintf("c17o-%d", i), client)
	defer os.RemoveAll(home)
	addr := fmt.Sprintf("127.0.0.1:%d", port)
	lines := c17Unrelated(rng, keys)
	known := rng.Intn(3) == 0
	if known {
		lines = append(lines, khLine(addr, keys[k1]))
	}
	khPath := filepath.Join(home, ".ssh", "known_hosts")
	os.WriteFile(khPath, []byte(strings.Join(lines, "\n")+"\n"), 0600)
	f, err := startFakeSSHD(r, fmt.Sprintf("c17o-%d", i), []int{port}, []string{keyFiles[k1]}, "", 200)
	if err != nil {
		r.Inconclusive("fakesshd")
		return
	}
	defer f.Stop()
	mode := [][]string{{"--plain"}, {"--quiet"}, {"--plain", "--quiet"}, {"--noColor"}, {"--quiet", "--noColor"}}[rng.Intn(5)]
	args := append([]string{"--cfg", "none", "--logger", "none", "--key", keyFile, "--user", "tester", "--servers", addr, "--files", "/var/log/x.log"}, mode...)
	pr, pw, _ := os.Pipe()
	// what the prompt finds on standard input: nothing yet (the user has not answered), refusals, or the end of input
	// (cron, CI, </dev/null, ^D) - at once, after looking at the details, after an answer that is none
	stdinMode := []string{"open", "n-then-open", "eof", "d-then-eof", "garbage-then-eof", "devnull"}[rng.Intn(6)]
	switch stdinMode {
	case "n-then-open":
		pw.WriteString("n\nn\nn\n")
	case "eof":
		pw.Close()
	case "d-then-eof":
		pw.WriteString("d\n")
		pw.Close()
	case "garbage-then-eof":
		pw.WriteString("maybe\n\n")
		pw.Close()
	}
	defer pw.Close()
	p := fmt.Sprintf("/proc/%d/fd/%d", os.Getpid(), pr.Fd())
	if stdinMode == "devnull" {
		p = "/dev/null"
	}
	res := vlib.RunCmd(vlib.Cmd{Path: r.Bin("dcat"), Args: args, Env: []string{"HOME=" + home}, Dir: home, StdinFile: p, Watchdog: 12 * time.Second, NoHangCheck: true})
	pr.Close()
	_ = res // a client that waits for an answer nobody gives is ended by the watchdog: judged by what the server saw
	r.Eval(fmt.Sprintf("output-mode|%v|%v|%s", mode, known, stdinMode))
	r.Count("output_mode_cases", 1)
	r.Count("prompt_input_"+stdinMode, 1)
	mode = append(mode, "stdin:"+stdinMode)
	got := false
	for _, e := range f.Events() {
		if e.Ev == "shell" || e.Ev == "data" {
			got = true
		}
	}
	switch {
	case !known && got:
		r.Violation("untrusted-server-received-commands", map[string]interface{}{"scenario": "unknown host, the user did not approve it", "options": mode})
	case known && !got:
		r.Violation("trusted-server-not-contacted", map[string]interface{}{"scenario": "known host", "options": mode})
	}
	if b, err := os.ReadFile(khPath); err == nil && !known && strings.Contains(string(b), fmt.Sprintf("[127.0.0.1]:%d", port)) {
		r.Violation("refused-host-recorded", map[string]interface{}{"scenario": "unknown host, not approved", "options": mode})
	}
}

// c17Damaged: known_hosts cannot be parsed (a damaged line). Nothing can be
// verified then: whatever the user answers and whether or not the server's key
// is listed in one of the intact lines, no server may receive commands - a
// client that cannot check host keys must not fall back to trusting everybody.
func c17Damaged(r *vlib.Run, i int, rng *rand.Rand, keys []*vlib.Key, keyFiles []string, client *vlib.Key) {
	port := vlib.FreePort()
	k1 := rng.Intn(5)
	home, keyFile := r.ClientHome(fmt.Sprintf("c17d-%d", i), client)
	defer os.RemoveAll(home)
	addr := fmt.Sprintf("127.0.0.1:%d", port)
	lines := c17Unrelated(rng, keys)
	listed := rng.Intn(2) == 0
	if listed {
		lines = append(lines, khLine(addr, keys[k1]))
	}
	bad := []string{"this is not a known_hosts line", "somehost ssh-rsa not-base64!!", "@unknown-marker h ssh-ed25519 AAAA", "onlyonefield", "h1,h2 ssh-ed25519"}[rng.Intn(5)]
	pos := rng.Intn(len(lines) + 1)
	lines = append(lines[:pos:pos], append([]string{bad}, lines[pos:]...)...)
	khPath := filepath.Join(home, ".ssh", "known_hosts")
	before := strings.Join(lines, "\n") + "\n"
	os.WriteFile(khPath, []byte(before), 0600)
	f, err := startFakeSSHD(r, fmt.Sprintf("c17d-%d", i), []int{port}, []string{keyFiles[k1]}, "", 200)
	if err != nil {
		r.Inconclusive("fakesshd")
		return
	}
	defer f.Stop()
	answer := []string{"y\n", "n\n", "a\n", "\n"}[rng.Intn(4)]
	args := []string{"--cfg", "none", "--logger", "none", "--key", keyFile, "--user", "tester", "--servers", addr, "--files", "/var/log/x.log"}
	pr, pw, _ := os.Pipe()
	pw.WriteString(answer + "n\nn\nn\n")
	defer pw.Close()
	res := runWithStdinFile(r, "dcat", args, home, pr)
	pr.Close()
	r.Eval(fmt.Sprintf("damaged|%q|%v|%q", bad, listed, answer))
	r.Count("damaged_known_hosts_cases", 1)
	if res.TimedOut {
		r.Inconclusive("dcat-watchdog")
		return
	}
	for _, e := range f.Events() {
		if e.Ev == "shell" || e.Ev == "data" {
			r.Violation("untrusted-server-received-commands", map[string]interface{}{"scenario": "known_hosts contains a line that cannot be parsed: host keys cannot be verified",
				"damaged_line": bad, "server_key_listed_in_an_intact_line": listed, "answer": answer, "known_hosts": vlib.Trunc(before, 600)})
			return
		}
	}
}

// c17EntryRemoved: dtail is connected to a known host; while it runs, the
// host's entry is removed from known_hosts (ssh-keygen -R, configuration
// management). The server hangs up, dtail reconnects: the host is unknown now,
// the user answers no, so no connection made after the removal may receive
// commands. Connections are ordered against the removal by the wall clock both
// processes log (a connection is judged only if it began after the removal).
func c17EntryRemoved(r *vlib.Run, i int, rng *rand.Rand, keys []*vlib.Key, keyFiles []string, client *vlib.Key) {
	port := vlib.FreePort()
	k1 := rng.Intn(5)
	home, keyFile := r.ClientHome(fmt.Sprintf("c17e-%d", i), client)
	defer os.RemoveAll(home)
	addr := fmt.Sprintf("127.0.0.1:%d", port)
	unrelated := c17Unrelated(rng, keys)
	khPath := filepath.Join(home, ".ssh", "known_hosts")
	hashed := rng.Intn(3) == 0
	entry := khLine(addr, keys[k1])
	if hashed {
		entry = khHashed(addr, keys[k1])
	}
	os.WriteFile(khPath, []byte(strings.Join(append(append([]string(nil), unrelated...), entry), "\n")+"\n"), 0600)
	f, err := startFakeSSHD(r, fmt.Sprintf("c17e-%d", i), []int{port}, []string{keyFiles[k1]}, "", 200)
	if err != nil {
		r.Inconclusive("fakesshd")
		return
	}
	defer f.Stop()
	var removedAt int64
	done := make(chan struct{})
	go func() {
		defer close(done)
		deadline := time.Now().Add(20 * time.Second)
		for time.Now().Before(deadline) {
			for _, e := range f.Events() {
				if e.Ev == "shell" && e.Conn == 0 {
					os.WriteFile(khPath+".new", []byte(strings.Join(unrelated, "\n")+"\n"), 0600)
					os.Rename(khPath+".new", khPath)
					removedAt = time.Now().UnixNano()
					return
				}
			}
			time.Sleep(10 * time.Millisecond)
		}
	}()
	args := []string{"--cfg", "none", "--logger", "none", "--key", keyFile, "--user", "tester", "--servers", addr, "--files", "/var/log/x.log", "--shutdownAfter", "9"}
	pr, pw, _ := os.Pipe()
	pw.WriteString("n\nn\nn\nn\nn\nn\n")
	defer pw.Close()
	res := runWithStdinFile(r, "dtail", args, home, pr)
	pr.Close()
	<-done
	r.Eval(fmt.Sprintf("entry-removed|%d|%v", k1, hashed))
	r.Count("entry_removed_cases", 1)
	if res.TimedOut || removedAt == 0 {
		r.Inconclusive("entry-removed-not-staged")
		return
	}
	connAt := map[int]int64{}
	commands := map[int]bool{}
	for _, e := range f.Events() {
		if e.Ev == "conn" {
			connAt[e.Conn] = e.T
		}
		if e.Ev == "shell" || e.Ev == "data" {
			commands[e.Conn] = true
		}
	}
	later := 0
	for c, t := range connAt {
		if c > 0 && t > removedAt {
			later++
			if commands[c] {
				r.Violation("untrusted-server-received-commands", map[string]interface{}{"scenario": "the host's known_hosts entry was removed while dtail was connected; the user answered no at the reconnect",
					"connection": c, "hashed_entry": hashed, "connections": len(connAt)})
				return
			}
		}
	}
	r.Count("entry_removed_reconnects_judged", later)
	// (a host the client adds is written in the clear, as [host]:port)
	if b, err := os.ReadFile(khPath); err == nil && strings.Contains(string(b), fmt.Sprintf("[127.0.0.1]:%d", port)) {
		r.Violation("refused-host-recorded", map[string]interface{}{"scenario": "entry removed while connected; user answered no", "known_hosts": vlib.Trunc(string(b), 800)})
	}
}

// c17Staggered: an unknown host finishes its key exchange while the prompt
// about another unknown host is on the screen. The user approves the first
// prompt and refuses the second: only the host(s) named in the approved prompt
// may be talked to and recorded.
func c17Staggered(r *vlib.Run, i int, rng *rand.Rand, keys []*vlib.Key, keyFiles []string, client *vlib.Key) {
	portA, portC := vlib.FreePort(), vlib.FreePort()
	for portC == portA {
		portC = vlib.FreePort()
	}
	kA, kC := rng.Intn(5), rng.Intn(5)
	home, keyFile := r.ClientHome(fmt.Sprintf("c17s-%d", i), client)
	defer os.RemoveAll(home)
	lines := c17Unrelated(rng, keys)
	old := strings.Join(lines, "\n") + "\n"
	khPath := filepath.Join(home, ".ssh", "known_hosts")
	os.WriteFile(khPath, []byte(old), 0600)
	fA, err := startFakeSSHD(r, fmt.Sprintf("c17s-%d-a", i), []int{portA}, []string{keyFiles[kA]}, "", 200)
	if err != nil {
		r.Inconclusive("fakesshd")
		return
	}
	defer fA.Stop()
	delay := 2500 + rng.Intn(900) // the first prompt opens ~2 s after A was seen
	fC, err := startFakeSSHDDelayed(r, fmt.Sprintf("c17s-%d-c", i), []int{portC}, []string{keyFiles[kC]}, "", 200, fmt.Sprintf("%d:%d", portC, delay))
	if err != nil {
		r.Inconclusive("fakesshd")
		return
	}
	defer fC.Stop()
	firstYes := rng.Intn(4) != 0
	// the second prompt (about C alone) is approved as well in some cases: two separate recordings in one client run
	secondYes := rng.Intn(5) < 2
	pr, pw, _ := os.Pipe()
	defer pw.Close()
	go func() {
		time.Sleep(time.Duration(delay+1300) * time.Millisecond) // C's key exchange has happened; prompt 1 still open
		if firstYes {
			pw.WriteString("y\n")
		} else {
			pw.WriteString("n\n")
		}
		time.Sleep(4500 * time.Millisecond) // prompt 2 (about C) opens ~2 s after prompt 1 was answered
		if secondYes {
			pw.WriteString("y\n")
			time.Sleep(3 * time.Second)
		}
		pw.WriteString("n\nn\nn\n")
	}()
	addrA, addrC := fmt.Sprintf("127.0.0.1:%d", portA), fmt.Sprintf("127.0.0.1:%d", portC)
	args := []string{"--cfg", "none", "--logger", "none", "--key", keyFile, "--user", "tester", "--servers", addrA + "," + addrC, "--files", "/var/log/x.log"}
	res := runWithStdinFile(r, "dcat", args, home, pr)
	pr.Close()
	r.Eval(fmt.Sprintf("staggered|%v|%d", firstYes, delay))
	r.Count("staggered_prompt_cases", 1)
	contacted := func(f *fakeSSHDProc) bool {
		for _, e := range f.Events() {
			if e.Ev == "shell" || e.Ev == "data" {
				return true
			}
		}
		return false
	}
	after, _ := os.ReadFile(khPath)
	d := map[string]interface{}{"first_prompt_answer_yes": firstYes, "host_A": addrA, "host_C_delayed": addrC, "delay_ms": delay,
		"A_contacted": contacted(fA), "C_contacted": contacted(fC), "known_hosts_after": vlib.Trunc(string(after), 2000), "exit": res.Exit}
	d["second_prompt_answer_yes"] = secondYes
	if secondYes {
		r.Count("staggered_cases_with_two_approved_batches", 1)
		if res.TimedOut {
			r.Inconclusive("dcat-watchdog")
			return
		}
		switch {
		case !contacted(fC) || firstYes != contacted(fA):
			r.Violation("trusted-server-not-contacted", d)
		case !strings.Contains(string(after), knownhosts.Normalize(addrC)+" ") || (firstYes && !strings.Contains(string(after), knownhosts.Normalize(addrA)+" ")):
			r.Violation("newly-trusted-host-not-recorded", d)
		case !firstYes && strings.Contains(string(after), knownhosts.Normalize(addrA)+" "):
			r.Violation("refused-host-recorded", d)
		default:
			for _, l := range lines {
				if !strings.Contains("\n"+string(after), "\n"+l+"\n") {
					d["lost_line"] = l
					r.Violation("unrelated-known-hosts-entry-lost", d)
					break
				}
			}
		}
		return
	}
	if contacted(fC) || strings.Contains(string(after), knownhosts.Normalize(addrC)+" ") {
		// what the servers saw and what was recorded stands, even if the client
		// had to be stopped by the watchdog afterwards
		d["client_stopped_by_watchdog"] = res.TimedOut
		r.Violation("untrusted-server-received-commands", d)
		return
	}
	if res.TimedOut {
		r.Inconclusive("dcat-watchdog")
		return
	}
	if firstYes != contacted(fA) {
		what := "trusted-server-not-contacted"
		if !firstYes {
			what = "untrusted-server-received-commands"
		}
		r.Violation(what, d)
		return
	}
	if firstYes && !strings.Contains(string(after), knownhosts.Normalize(addrA)+" ") {
		r.Violation("newly-trusted-host-not-recorded", d)
	}
}

// c17TrustAllMany: trust-all against eight unknown servers that finish their key exchange at the same time, with a
// known_hosts file of a few thousand unrelated entries (so that recording takes a while): every server is served,
// every one of them is recorded, every old line is still there.
func c17TrustAllMany(r *vlib.Run, i int, rng *rand.Rand, keys []*vlib.Key, keyFiles []string, client *vlib.Key) {
	const n = 8
	var ports []int
	for len(ports) < n {
		p := vlib.FreePort()
		dup := p == 0
		for _, q := range ports {
			dup = dup || q == p
		}
		if !dup {
			ports = append(ports, p)
		}
	}
	home, keyFile := r.ClientHome(fmt.Sprintf("c17m-%d", i), client)
	defer os.RemoveAll(home)
	var lines []string
	for k := 0; k < 2500+rng.Intn(1000); k++ {
		key := keys[5+k%4]
		switch k % 4 {
		case 0:
			lines = append(lines, khLine(fmt.Sprintf("host%04d.example.org:22", k), key))
		case 1:
			lines = append(lines, khHashed(fmt.Sprintf("10.%d.%d.7:2222", k/250, k%250), key))
		case 2:
			lines = append(lines, khLine(fmt.Sprintf("10.7.%d.%d:2222", k/250, k%250), key))
		default:
			lines = append(lines, fmt.Sprintf("# note %d", k))
		}
	}
	khPath := filepath.Join(home, ".ssh", "known_hosts")
	os.WriteFile(khPath, []byte(strings.Join(lines, "\n")+"\n"), 0600)
	kf := make([]string, n)
	for k := range kf {
		kf[k] = keyFiles[k%5]
	}
	f, err := startFakeSSHD(r, fmt.Sprintf("c17m-%d", i), ports, kf, "", 200)
	if err != nil {
		r.Inconclusive("fakesshd")
		return
	}
	defer f.Stop()
	var addrs []string
	for _, p := range ports {
		addrs = append(addrs, fmt.Sprintf("127.0.0.1:%d", p))
	}
	args := []string{"--cfg", "none", "--logger", "none", "--key", keyFile, "--user", "tester", "--servers", strings.Join(addrs, ","), "--files", "/var/log/x.log", "--trustAllHosts"}
	res := vlib.RunCmd(vlib.Cmd{Path: r.Bin("dcat"), Args: args, Env: []string{"HOME=" + home}, Dir: home, Stdin: []byte("n\nn\n"), Watchdog: 90 * time.Second})
	r.Eval(fmt.Sprintf("trust-all-many|%d", len(lines)))
	r.Count("trust_all_runs_against_eight_unknown_servers", 1)
	if res.TimedOut || res.Hung {
		r.Inconclusive("dcat-watchdog-or-hung")
		return
	}
	served := map[int]bool{}
	for _, e := range f.Events() {
		if e.Ev == "shell" || e.Ev == "data" {
			served[e.Port] = true
		}
	}
	after, _ := os.ReadFile(khPath)
	d := map[string]interface{}{"servers": addrs, "old_known_hosts_lines": len(lines), "exit": res.Exit, "known_hosts_lines_after": strings.Count(string(after), "\n")}
	if res.Panicked() {
		d["stderr"] = vlib.Trunc(string(res.Stderr), 1500)
		r.Violation("client-crash", d)
		return
	}
	var missing, unserved []string
	for k, a := range addrs {
		if !strings.Contains("\n"+string(after), "\n"+knownhosts.Normalize(a)+" ") {
			missing = append(missing, a)
		}
		if !served[ports[k]] {
			unserved = append(unserved, a)
		}
	}
	if len(unserved) > 0 {
		d["not_served"] = unserved
		r.Violation("trusted-server-not-contacted", d)
		return
	}
	if len(missing) > 0 {
		d["not_recorded"] = missing
		r.Violation("newly-trusted-host-not-recorded", d)
		return
	}
	have := map[string]bool{}
	for _, l := range strings.Split(string(after), "\n") {
		have[l] = true
	}
	for _, l := range lines {
		if !have[l] {
			d["lost_line"] = vlib.Trunc(l, 200)
			r.Violation("unrelated-known-hosts-entry-lost", d)
			return
		}
	}
}

// runWithStdinFile runs a client whose stdin is the given open file.
func runWithStdinFile(r *vlib.Run, bin string, args []string, home string, stdin *os.File) *vlib.Result {
	// RunCmd takes a path; pass the pipe through /proc/self/fd
	p := fmt.Sprintf("/proc/%d/fd/%d", os.Getpid(), stdin.Fd())
	return vlib.RunCmd(vlib.Cmd{Path: r.Bin(bin), Args: args, Env: []string{"HOME=" + home}, Dir: home, StdinFile: p, Watchdog: 45 * time.Second, NoHangCheck: true})
}

var _ = ssh.InsecureIgnoreHostKey
