//go:build w_c10

package props

import (
	"bytes"
	"encoding/json"
	"fmt"
	"github.com/mimecast/dtail/internal/config"
	"github.com/mimecast/dtail/internal/server/handlers"
	"github.com/mimecast/dtail/internal/source"
	user "github.com/mimecast/dtail/internal/user/server"
	"github.com/mimecast/dtail/verifharness/internal/dt"
	"github.com/mimecast/dtail/verifharness/internal/vlib"
	"strings"
	"sync"
	"time"
)

func init() {
	Children["c10handler"] = c10HandlerChild
}

func c10HandlerChild(args []string) int {
	dir := args[0]
	dt.Init(source.Server, "none", "none", "error", true)
	config.Server.Permissions.Default = c10Permissions
	// Commands which finish synchronously run the close handshake inside
	// Write (up to 5s waiting for an ack which cannot arrive meanwhile), so many
	// sessions are driven concurrently.
	return vlib.BatchMainPar(dir, 64, func(i int, raw json.RawMessage) interface{} {
		t0 := time.Now()
		var in c10Input
		json.Unmarshal(raw, &in)
		var data []byte
		fmt.Sscanf(in.Hex, "%x", &data)
		u, err := user.New("fuzzer", "127.0.0.1:1")
		if err != nil {
			return map[string]string{"err": err.Error()}
		}
		h := handlers.NewServerHandler(u, make(chan struct{}, 2), make(chan struct{}, 2))
		var out bytes.Buffer
		var omu sync.Mutex
		stop := make(chan struct{})
		readerDone := make(chan struct{})
		go func() {
			defer close(readerDone)
			buf := make([]byte, 32768)
			for {
				// like the transport's copy loop: read until the handler reports EOF
				n, err := h.Read(buf)
				if n > 0 {
					omu.Lock()
					if out.Len() < 4096 {
						out.Write(buf[:n])
					}
					omu.Unlock()
				}
				if err != nil {
					return
				}
			}
		}()
		h.Write(data)
		// let the command goroutines run: a panic in any of them ends this process
		time.Sleep(40 * time.Millisecond)
		if strings.Contains(in.Class, "broken-compressed-file") {
			// let the read reach the point where the stream breaks: the server
			// reports the reader's error to the session
			for w := 0; w < 100; w++ {
				time.Sleep(100 * time.Millisecond)
				omu.Lock()
				seen := bytes.Contains(out.Bytes(), []byte("ERROR"))
				omu.Unlock()
				if seen {
					time.Sleep(200 * time.Millisecond)
					break
				}
			}
		}
		if strings.Contains(in.Class, "cat-until-done") {
			// let the whole file pass through the pipeline: the session ends by
			// itself (close handshake) once the result was handed over
			for w := 0; w < 120; w++ {
				time.Sleep(100 * time.Millisecond)
				omu.Lock()
				seen := bytes.Contains(out.Bytes(), []byte(".syn close")) || bytes.Contains(out.Bytes(), []byte("ERROR"))
				omu.Unlock()
				if seen {
					break
				}
			}
		}
		h.Shutdown()
		close(stop)
		select {
		case <-readerDone:
		case <-time.After(3 * time.Second):
		}
		omu.Lock()
		defer omu.Unlock()
		return map[string]interface{}{"resp_len": out.Len(), "resp": vlib.Trunc(out.String(), 120), "ms": time.Since(t0).Milliseconds()}
	})
}
