package props

import (
	"bytes"
	"compress/gzip"
	"encoding/json"
	"fmt"
	"io"
	"math/rand"
	"os"
	"path/filepath"
	"regexp"
	"strconv"
	"strings"

	"github.com/DataDog/zstd"
	"github.com/mimecast/dtail/verifharness/internal/vlib"
)

// C01 — dcat reproduces file content byte for byte.

// splitM is the only permitted transformation: the messages the reader must
// produce. After each run of M consecutive non-newline bytes a newline is
// inserted. Returned are the messages (lines incl. their terminator; the last
// one may be unterminated).
func splitM(content []byte, m int) [][]byte {
	var out [][]byte
	var cur []byte
	run := 0
	for _, b := range content {
		cur = append(cur, b)
		if b == '\n' {
			out = append(out, cur)
			cur = nil
			run = 0
			continue
		}
		run++
		if run >= m {
			cur = append(cur, '\n')
			out = append(out, cur)
			cur = nil
			run = 0
		}
	}
	if len(cur) > 0 {
		out = append(out, cur)
	}
	return out
}

func joinMsgs(msgs [][]byte) []byte {
	var b bytes.Buffer
	for _, m := range msgs {
		b.Write(m)
	}
	return b.Bytes()
}

// clientSim predicts the plain-mode output under the two recorded protocol
// findings: the stream is msgs joined by the delimiter byte 0xAC; the client
// cuts at '\n' (kept) and 0xAC (dropped) and hides fragments starting with '.'.
// It returns the predicted output fragments, which findings were triggered and
// the index of the first fragment starting with ".syn close connection" (-1 if none).
func clientSim(msgs [][]byte) (frags [][]byte, delim, dot bool, synAt int) {
	synAt = -1
	var buf []byte
	emit := func() {
		if len(buf) > 0 && buf[0] == '.' {
			dot = true
			if bytes.HasPrefix(buf, []byte(".syn close connection")) && synAt < 0 {
				synAt = len(frags)
			}
		} else if len(buf) > 0 {
			frags = append(frags, append([]byte(nil), buf...))
		}
		buf = buf[:0]
	}
	for _, m := range msgs {
		for _, b := range m {
			switch b {
			case '\n':
				buf = append(buf, b)
				emit()
			case 0xAC:
				delim = true
				emit()
			default:
				buf = append(buf, b)
			}
		}
		emit() // the framing delimiter after each message
	}
	return
}

// The text of the warning is empty when the server's own log level is above WARN.
func longLineWarnRe(host string) *regexp.Regexp {
	return regexp.MustCompile(`SERVER\|` + regexp.QuoteMeta(host) + `\|(WARN\|[^\n]*Long log line, splitting into multiple lines)?\n`)
}

type c01Case struct {
	Content   []byte
	Container string // "", .gz, .gzip, .zst
	M         int    // 0 = default (1 MiB)
	SSH       bool
	NonPlain  bool
	Classes   []string
	Trigger   bool
	// StallS > 0: the consumer of stdout stalls that long at offset 0 (pipe of
	// 4 KiB), so the read of the file lasts longer than the reader's periodic
	// housekeeping (truncation check every 3 s).
	StallS float64
	// StallAt: offset of the output at which the consumer stalls. With an
	// offset near the end the file is read to its end while its last lines
	// are still queued in the session: the close of the session has to wait
	// for a consumer that does not read anything for StallS seconds.
	StallAt int64
}

// genContent builds file content from byte-class segments.
func c01GenContent(rng *rand.Rand, m int, maxSize int, allowTriggers bool) ([]byte, []string) {
	var b bytes.Buffer
	classes := map[string]bool{}
	word := func() string {
		ws := []string{"alpha", "beta", "GET /index.html", "x", "status=200", "REMOTE|", "SERVER|", "CLIENT|h|", "a|b|c|d|e|f|g", "\ttab", "  ", "ünï", "日本語", "{}", "\x1b[31mred\x1b[0m"}
		return ws[rng.Intn(len(ws))]
	}
	mm := m
	if mm == 0 {
		mm = 1024 * 1024
	}
	nSeg := 1 + rng.Intn(12)
	if rng.Intn(8) == 0 {
		nSeg = 0
	}
	for s := 0; s < nSeg && b.Len() < maxSize; s++ {
		switch k := rng.Intn(20); {
		case k < 5: // ordinary text lines
			classes["text"] = true
			n := 1 + rng.Intn(20)
			for i := 0; i < n; i++ {
				for j := rng.Intn(5); j >= 0; j-- {
					b.WriteString(word())
					b.WriteByte(' ')
				}
				b.WriteByte('\n')
			}
		case k == 5: // every single byte value mid-line
			classes["allbytes"] = true
			for v := 0; v < 256; v++ {
				if v == 0xAC && !allowTriggers {
					continue
				}
				if v == '\n' {
					continue
				}
				b.WriteString("b")
				b.WriteByte(byte(v))
				b.WriteString("e\n")
			}
		case k == 6: // single byte as a whole line
			classes["byteline"] = true
			for i := 0; i < 8; i++ {
				v := byte(rng.Intn(256))
				if (v == 0xAC || v == '.') && !allowTriggers {
					v = 'q'
				}
				if v != '\n' {
					b.WriteByte(v)
				}
				b.WriteByte('\n')
			}
		case k == 7:
			classes["crlf"] = true
			for i := 0; i < 1+rng.Intn(5); i++ {
				b.WriteString(word() + "\r\n")
			}
		case k == 8:
			classes["emptylines"] = true
			b.WriteString(strings.Repeat("\n", 1+rng.Intn(6)))
		case k == 9:
			classes["nul"] = true
			b.Write(bytes.Repeat([]byte{0}, 1+rng.Intn(40)))
			b.WriteByte('\n')
		case k == 10:
			classes["utf8"] = true
			b.WriteString("grüße 😀 Ελληνικά ¡hola! ¿qué? «x» ±5 ÷ × \n")
		case k == 11 && allowTriggers: // chars whose UTF-8 encoding contains 0xAC
			classes["utf8-0xac"] = true
			b.WriteString("price 5€ ¬not 쬬 done\n")
		case k == 12 && allowTriggers:
			classes["dotline"] = true
			b.WriteString([]string{".hidden\n", "...\n", ".\n", ". x\n", "a\n.b\n"}[rng.Intn(5)])
		case k == 13 && allowTriggers && rng.Intn(4) == 0:
			classes["synline"] = true
			b.WriteString(".syn close connection\n")
		case k == 14: // trailing/inner dots (no trigger)
			classes["dots-inner"] = true
			b.WriteString("end.\na.b.c\n x.\n")
		case k >= 15 && k <= 17: // long lines around the interesting lengths
			lens := []int{mm - 1, mm, mm + 1, 2 * mm, 2*mm + 1, 32767, 32768, 32769, 65537, 100001, 3*mm - 1, 4095, 4096, 4097}
			l := lens[rng.Intn(len(lens))]
			if l > maxSize-b.Len() {
				l = lens[rng.Intn(3)]
				if l > maxSize-b.Len() {
					continue
				}
			}
			if l >= mm {
				classes["line>=M"] = true
			} else {
				classes["longline<M"] = true
			}
			for i := 0; i < l; i++ {
				b.WriteByte("abcdefghijklmnopqrstuvwxyz0123456789"[(i+s)%36])
			}
			b.WriteByte('\n')
			if rng.Intn(3) == 0 {
				b.WriteByte('\n') // empty line right after
				if rng.Intn(2) == 0 {
					b.WriteByte('\n')
				}
			}
		default:
			classes["numbered"] = true
			for i := 0; i < 30+rng.Intn(200); i++ {
				fmt.Fprintf(&b, "%06d the quick brown fox\n", i)
			}
		}
	}
	out := b.Bytes()
	if len(out) > 0 && rng.Intn(3) == 0 {
		// missing final newline
		out = bytes.TrimRight(out, "\n")
		if len(out) > 0 {
			classes["no-final-nl"] = true
		}
	}
	if !allowTriggers {
		// no delimiter byte (it also hides in multi-byte runes, e.g. U+672C)
		out = bytes.ReplaceAll(out, []byte{0xAC}, []byte{0xAD})
		// make sure no line starts with '.'
		if len(out) > 0 && out[0] == '.' {
			out[0] = 'd'
		}
		out = bytes.ReplaceAll(out, []byte("\n."), []byte("\nd"))
		// and that no M-split fragment starts with '.'
		for _, mg := range splitM(out, mm) {
			if len(mg) > 0 && mg[0] == '.' {
				out = bytes.ReplaceAll(out, []byte("."), []byte(":"))
				break
			}
		}
	}
	var cl []string
	for c := range classes {
		cl = append(cl, c)
	}
	return out, cl
}

func compress(container string, content []byte) []byte {
	switch container {
	case ".gz", ".gzip":
		var b bytes.Buffer
		w := gzip.NewWriter(&b)
		w.Write(content)
		w.Close()
		return b.Bytes()
	case ".zst":
		var b bytes.Buffer
		w := zstd.NewWriter(&b)
		w.Write(content)
		w.Close()
		return b.Bytes()
	}
	return content
}

func decompress(container string, raw []byte) []byte {
	switch container {
	case ".gz", ".gzip":
		zr, err := gzip.NewReader(bytes.NewReader(raw))
		if err != nil {
			return nil
		}
		b, _ := io.ReadAll(zr)
		return b
	case ".zst":
		b, _ := io.ReadAll(zstd.NewReader(bytes.NewReader(raw)))
		return b
	}
	return raw
}

func init() {
	Drivers["C01"] = c01
}

func c01(r *vlib.Run) int {
	r.Rule("file content built from byte-class segments (every byte value mid-line and as a line, CRLF, empty lines, NUL runs, " +
		"UTF-8, leading/inner dots, REMOTE|/SERVER| look-alikes, ANSI escapes, line lengths around M, 2M, 32 KiB, 64 KiB, 100 000, " +
		"missing final newline) x container {plain,.gz,.gzip,.zst} x MaxLineLength {1 MiB, 1024, 50} x transport {serverless, SSH} " +
		"x mode {--plain, REMOTE records}; oracle: stdout == content with a newline after each run of M non-newline bytes. " +
		"distinct = distinct (content hash, container, M, transport, mode); non-trivial = content of >= 2 lines.")
	r.Assume("clients run with --cfg none|<cfg> --logger stdout --logLevel error (diagnostics share stdout otherwise)")
	r.Assume("known findings c01.delim-0xac, c01.dot-line, c01.ssh-longline-warn are classified by exact prediction of the client's cutting rule; any other deviation is a violation")
	n := r.N(2500, 40000)
	maxSize := r.N(200*1024, 2*1024*1024)
	rng := r.Rng("cases")

	ms := []int{0, 1024, 50}
	fleets := map[int]*fleet{}
	cfgs := map[int]string{}
	for _, m := range ms {
		scfg := map[string]interface{}{"MaxConcurrentCats": 16, "MaxConnections": 64}
		if m != 0 {
			scfg["MaxLineLength"] = m
			p := filepath.Join(r.Dir("c01cfg"), fmt.Sprintf("m%d.json", m))
			os.WriteFile(p, []byte(fmt.Sprintf(`{"Server":{"MaxLineLength":%d}}`, m)), 0644)
			cfgs[m] = p
		}
		fl, err := startFleet(r, fmt.Sprintf("c01m%d", m), 1, scfg, nil, "error")
		if err != nil {
			r.Inconclusive("fleet-start")
			continue
		}
		fleets[m] = fl
		defer fl.Stop()
	}

	if r.Replay != "" {
		var rep struct {
			Detail struct {
				InputFile string `json:"input_file"`
				Container string `json:"container"`
				M         int    `json:"M"`
				SSH       bool   `json:"ssh"`
				Mode      string `json:"mode"`
			} `json:"detail"`
		}
		b, _ := os.ReadFile(r.Replay)
		json.Unmarshal(b, &rep)
		raw, err := os.ReadFile(rep.Detail.InputFile)
		if err != nil {
			fmt.Println("replay: cannot read input:", err)
			return 1
		}
		content := decompress(rep.Detail.Container, raw)
		c := &c01Case{Content: content, Container: rep.Detail.Container, M: rep.Detail.M, SSH: rep.Detail.SSH,
			NonPlain: rep.Detail.Mode == "remote", Classes: []string{"replay"}}
		if c.M == 1024*1024 {
			c.M = 0
		}
		path := filepath.Join(r.Dir("c01files"), "replay.log"+c.Container)
		os.WriteFile(path, raw, 0644)
		c01Run(r, 0, c, path, fleets[c.M], cfgs[c.M])
		r.Eval("replay-a")
		r.Eval("replay-b")
		return 1
	}
	cases := make([]*c01Case, n)
	for i := range cases {
		c := &c01Case{}
		c.M = ms[rng.Intn(3)]
		c.Trigger = rng.Intn(10) < 3
		sz := maxSize
		if rng.Intn(3) != 0 {
			sz = 40 * 1024
		}
		if c.M == 0 && rng.Intn(6) != 0 {
			sz = 150 * 1024 // lines >= 1 MiB only sometimes
		} else if c.M == 0 {
			sz = 3 * 1024 * 1024
		}
		c.Content, c.Classes = c01GenContent(rng, c.M, sz, c.Trigger)
		c.Container = []string{"", "", ".gz", ".gzip", ".zst"}[rng.Intn(5)]
		c.SSH = rng.Intn(3) == 0 && fleets[c.M] != nil
		c.NonPlain = rng.Intn(6) == 0
		cases[i] = c
	}
	// long-running reads: a slow consumer keeps the read of a (compressed) file
	// going for several seconds
	nSlow := r.N(6, 48)
	for k := 0; k < nSlow && k < len(cases); k++ {
		c := cases[k*len(cases)/nSlow]
		c.Trigger, c.NonPlain = false, false
		c.Container = []string{".gz", ".zst", ".gzip", ""}[k%4]
		c.M = 0
		c.SSH = fleets[0] != nil && k%3 == 0
		var b bytes.Buffer
		for q := 0; q < 4000+137*k; q++ {
			fmt.Fprintf(&b, "%06d slow consumer line the quick brown fox jumps over the lazy dog\n", q)
		}
		c.Content = b.Bytes()
		if k%2 == 0 {
			c.Content = bytes.TrimRight(c.Content, "\n")
		}
		c.Classes = []string{"slow-consumer", "numbered"}
		c.StallS = 3.6
	}
	// consumer stalls for 7.5 s when only the tail of the file is outstanding
	// (serverless: the last 5-9 KB = pipe + < 100 queued lines; through a
	// server: 60 KB lines, so that the session queue of 100 lines is larger
	// than everything the SSH transport buffers)
	nTail := r.N(3, 12)
	for k := 0; k < nTail && nSlow+k < len(cases); k++ {
		c := cases[(k*len(cases)/nTail+len(cases)/7)%len(cases)]
		if c.StallS > 0 {
			continue
		}
		c.Trigger, c.NonPlain = false, false
		c.Container = []string{"", ".gz", ".zst"}[k%3]
		c.M = 0
		c.SSH = fleets[0] != nil && k%3 == 2
		var b bytes.Buffer
		if c.SSH {
			for q := 0; q < 130+k; q++ {
				fmt.Fprintf(&b, "%06d %s\n", q, strings.Repeat("long line through a server ", 2300))
			}
			c.StallAt = 65536
		} else {
			for q := 0; q < 3000+91*k; q++ {
				fmt.Fprintf(&b, "%06d stalled consumer line the quick brown fox jumps over the lazy dog\n", q)
			}
			c.StallAt = int64(b.Len() - 5000 - 1300*(k%4))
		}
		if k%2 == 1 {
			// no final newline: the reader meets the end of the file, with the last bytes still in its hands, while
			// every queue towards the stalled consumer is full
			b.WriteString("END of file without a final newline")
		}
		c.Content = b.Bytes()
		c.Classes = []string{"consumer-stalls-at-the-tail", "numbered"}
		c.StallS = 7.5
	}
	c01Queued(r)
	dir := r.Dir("c01files")
	vlib.Parallel(n, 12, func(i int) {
		c := cases[i]
		// file names of every kind a file system allows and the wire command can carry (no blank: recorded finding
		// c08.space-in-path; no wildcard characters): the name travels inside the request
		weird := []string{"", "", "", "~", "a~", "ab~", "ü", "日本語", ">", "+x", "x+", "%41", "=", "a=b", "^", ";", "'q'", "#", "@", "!", "ÿþ", "~~~", "&", "$HOME", "(1)", "{a}", "\u00e9"}[i%27] // (no comma: it separates the files of --files)
		path := filepath.Join(dir, fmt.Sprintf("f%d%s.log%s", i, weird, c.Container))
		if weird != "" {
			r.Count("files_with_unusual_names", 1)
		}
		os.WriteFile(path, compress(c.Container, c.Content), 0644)
		defer os.Remove(path)
		c01Run(r, i, c, path, fleets[c.M], cfgs[c.M])
	})
	return n / 2
}

// c01Queued: reads that have to wait for a read slot. A server with MaxConcurrentCats=1 (at its default log level)
// gets eight plain dcat sessions at the same time, each on its own file, and sessions that name several files by one
// wildcard: all but one read queue behind the limit. What a session prints must still be exactly its file (for a
// wildcard: its files, each contiguous, in some order) - waiting for a slot is not content.
func c01Queued(r *vlib.Run) {
	fl, err := startFleet(r, "c01q", 1, map[string]interface{}{"MaxConcurrentCats": 1, "MaxConnections": 64}, nil, "info")
	if err != nil {
		r.Inconclusive("fleet-start")
		return
	}
	defer fl.Stop()
	rng := r.Rng("queued")
	dir := r.Dir("c01queued")
	rounds := r.N(3, 20)
	for round := 0; round < rounds; round++ {
		const k = 8
		contents := make([][]byte, k)
		paths := make([]string, k)
		gdir := filepath.Join(dir, fmt.Sprintf("g%d", round))
		os.MkdirAll(gdir, 0755)
		for j := range contents {
			c, _ := c01GenContent(rng, 1024*1024, 300*1024, false) // (far below MaxLineLength: no line long enough for the recorded long-line warning)
			c = append(bytes.TrimRight(c, "\n"), '\n')
			contents[j] = c
			paths[j] = filepath.Join(gdir, fmt.Sprintf("q%d.log", j))
			os.WriteFile(paths[j], c, 0644)
		}
		outs := make([]*vlib.Result, k+1)
		vlib.Parallel(k+1, k+1, func(j int) {
			if j == k {
				outs[j] = runFleet(r, fl, "dcat", []string{"--plain", "--files", filepath.Join(gdir, "q[0-3].log")}, nil)
				return
			}
			outs[j] = runFleet(r, fl, "dcat", []string{"--plain", "--files", paths[j]}, nil)
		})
		for j, res := range outs {
			r.Eval(fmt.Sprintf("queued|%d|%d", round, j))
			r.Count("sessions_reading_behind_a_cat_limit_of_1", 1)
			if res.TimedOut {
				r.Inconclusive("dcat-watchdog")
				continue
			}
			ok := false
			if j < k {
				ok = bytes.Equal(res.Stdout, joinMsgs(splitM(contents[j], 1024*1024)))
			} else {
				// four files, each contiguous, in any order (all 24 orders are tried: one file's content may be the
				// beginning of another's)
				var try func(rest []byte, used int) bool
				try = func(rest []byte, used int) bool {
					if used == 15 {
						return len(rest) == 0
					}
					for q := 0; q < 4; q++ {
						if used&(1<<q) == 0 && bytes.HasPrefix(rest, contents[q]) && try(rest[len(contents[q]):], used|1<<q) {
							return true
						}
					}
					return false
				}
				ok = try(res.Stdout, 0)
			}
			if res.Hung || res.Panicked() || res.Exit != 0 || !ok {
				d := map[string]interface{}{"scenario": "eight sessions at once on a server with MaxConcurrentCats=1", "session": j, "wildcard": j == k,
					"exit": res.Exit, "hung": res.Hung, "stdout_len": len(res.Stdout), "stdout_prefix": vlib.Trunc(string(res.Stdout), 400), "stderr": vlib.Trunc(string(res.Stderr), 600)}
				if j < k {
					want := joinMsgs(splitM(contents[j], 1024*1024))
					d["want_len"], d["first_diff_at"] = len(want), firstDiff(res.Stdout, want)
					d["got_around"], d["want_around"] = around(res.Stdout, firstDiff(res.Stdout, want)), around(want, firstDiff(res.Stdout, want))
				}
				r.Violation("content-mismatch-when-the-read-had-to-queue", d)
			}
		}
		os.RemoveAll(gdir)
	}
	if !fl.AllAlive() {
		r.Violation("server-died", map[string]interface{}{"scenario": "queued reads"})
	}
}

func c01Run(r *vlib.Run, i int, c *c01Case, path string, fl *fleet, cfg string) {
	m := c.M
	if m == 0 {
		m = 1024 * 1024
	}
	args := []string{"--files", path}
	if c.NonPlain {
		args = append(args, "--noColor")
	} else {
		args = append(args, "--plain")
	}
	var res *vlib.Result
	switch {
	case c.StallS > 0 && c.SSH:
		full := append(fl.ClientArgs(), "--logger", "stdout", "--logLevel", "error")
		var out []byte
		res, out = runPaced(vlib.Cmd{Path: r.Bin("dcat"), Args: append(full, args...), Env: fl.ClientEnv(), Dir: fl.Home},
			pacing{Kind: "stall", StallAt: c.StallAt, StallS: c.StallS}, 4096)
		res.Stdout = out
	case c.StallS > 0:
		home := serverlessHome(r)
		if cfg == "" {
			cfg = "none"
		}
		full := append([]string{"--cfg", cfg, "--logger", "stdout", "--logLevel", "error"}, args...)
		var out []byte
		res, out = runPaced(vlib.Cmd{Path: r.Bin("dcat"), Args: full, Env: []string{"HOME=" + home}, Dir: home},
			pacing{Kind: "stall", StallAt: c.StallAt, StallS: c.StallS}, 4096)
		res.Stdout = out
	case c.SSH:
		res = runFleet(r, fl, "dcat", args, nil)
	default:
		res = runServerless(r, "dcat", args, cfg, nil)
	}
	var longLineWarn *regexp.Regexp
	if c.SSH {
		longLineWarn = longLineWarnRe(fl.Servers[0].Spec.Name)
	}
	msgs := splitM(c.Content, m)
	key := ""
	if len(msgs) >= 2 {
		key = fmt.Sprintf("%x|%s|%d|%v|%v", hashStrings([]string{string(c.Content)}), c.Container, c.M, c.SSH, c.NonPlain)
	}
	r.Eval(key)
	mode := "plain"
	if c.NonPlain {
		mode = "remote"
	}
	tr := "serverless"
	if c.SSH {
		tr = "ssh"
	}
	for _, cl := range c.Classes {
		r.SetAdd("cell", fmt.Sprintf("%s/%s/M%d/%s/%s", cl, c.Container, c.M, tr, mode))
		r.SetAdd("byteclass", cl)
	}
	r.Count("bytes_compared", len(c.Content))
	if i < 3 {
		r.Sample(map[string]interface{}{"classes": c.Classes, "container": c.Container, "M": c.M, "ssh": c.SSH, "mode": mode,
			"size": len(c.Content), "hex_prefix": fmt.Sprintf("%x", c.Content[:min(len(c.Content), 48)])})
	}
	if res.TimedOut {
		r.Inconclusive("dcat-watchdog")
		return
	}
	detail := func() map[string]interface{} {
		dump := filepath.Join(vlib.VerifDir, "replay", "C01")
		os.MkdirAll(dump, 0755)
		fp := filepath.Join(dump, fmt.Sprintf("%s-seed%d-case%d.input%s", r.Tier, r.Seed, i, c.Container))
		return map[string]interface{}{"input_file": fp, "classes": c.Classes, "container": c.Container, "M": m, "ssh": c.SSH,
			"mode": mode, "exit": res.Exit, "hung": res.Hung, "size": len(c.Content), "stdout_len": len(res.Stdout),
			"stderr": vlib.Trunc(string(res.Stderr), 1200)}
	}
	// the input of a violating case is kept next to the replay file
	viol := func(kind string, d map[string]interface{}) {
		if fp, ok := d["input_file"].(string); ok && r.Violations() < 25 && r.Replay == "" {
			os.WriteFile(fp, compress(c.Container, c.Content), 0644)
		}
		r.Violation(kind, d)
	}
	if res.Hung || res.Panicked() {
		viol("dcat-hung-or-crashed", detail())
		return
	}
	want := joinMsgs(msgs)
	got := res.Stdout
	if c.NonPlain {
		raw := res.Stdout
		if c.SSH {
			// server messages are legitimate records of their own in non-plain mode
			raw = longLineWarn.ReplaceAll(raw, nil)
		}
		got2, why := stripRemote(raw, len(msgs))
		if why != "" && !bytes.Contains(c.Content, []byte{0xAC}) {
			d := detail()
			d["why"] = why
			d["stdout_prefix"] = vlib.Trunc(string(res.Stdout), 600)
			viol("remote-records-malformed", d)
			return
		}
		got = got2
		if why != "" {
			// 0xAC in content breaks records: classify below with got = raw
			if r.Known("c01.delim-0xac", "content byte 0xAC cuts REMOTE records (non-plain mode)") {
				return
			}
		}
	}
	if res.Exit == 0 && bytes.Equal(got, want) {
		return
	}
	d := detail()
	d["first_diff_at"] = firstDiff(got, want)
	d["got_around"] = around(got, firstDiff(got, want))
	d["want_around"] = around(want, firstDiff(got, want))
	if res.Exit != 0 {
		viol("dcat-exit-status", d)
		return
	}
	// classify against the recorded findings
	if c.SSH && !c.NonPlain {
		stripped := longLineWarn.ReplaceAll(got, nil)
		if len(stripped) != len(got) {
			hasLong := false
			for _, mg := range msgs {
				if len(mg) >= m {
					hasLong = true
				}
			}
			if hasLong && bytes.Equal(stripped, want) {
				if r.Known("c01.ssh-longline-warn", "SERVER|..|WARN|..Long log line.. records in plain output over SSH") {
					return
				}
			}
			got = stripped
		}
	}
	if c.NonPlain {
		// REMOTE records: the first fragment of a message carries the record
		// prefix; fragments after an in-content 0xAC are raw (hidden if they
		// start with '.').
		var pred bytes.Buffer
		delim, dot := false, false
		for _, mg := range msgs {
			parts := bytes.Split(mg, []byte{0xAC})
			if len(parts) > 1 {
				delim = true
			}
			for k, p := range parts {
				if k > 0 && len(p) > 0 && p[0] == '.' {
					dot = true
					continue
				}
				pred.Write(p)
			}
		}
		if delim && bytes.Equal(got, pred.Bytes()) {
			ok := r.Known("c01.delim-0xac", "content byte 0xAC (message delimiter) vanishes from dcat output")
			if dot {
				ok = r.Known("c01.dot-line", "a fragment starting with '.' is dropped") && ok
			}
			if ok {
				return
			}
		}
	}
	if !c.NonPlain {
		frags, delim, dot, synAt := clientSim(msgs)
		pred := joinMsgs(frags)
		okPred := bytes.Equal(got, pred)
		if !okPred && synAt >= 0 {
			// after '.syn close connection' the client shuts down: what follows may be missing
			head := joinMsgs(frags[:synAt])
			if bytes.HasPrefix(got, head) && isSubsequenceOfFrags(got[len(head):], frags[synAt:]) {
				okPred = true
			}
		}
		if !okPred && os.Getenv("VERIF_DEBUG") != "" {
			fd := firstDiff(got, pred)
			fmt.Printf("DEBUG pred mismatch at %d got=%s pred=%s\n", fd, around(got, fd), around(pred, fd))
		}
		if okPred && (delim || dot) {
			ok := true
			if delim {
				ok = r.Known("c01.delim-0xac", "content byte 0xAC (message delimiter) vanishes from dcat --plain output") && ok
			}
			if dot {
				ok = r.Known("c01.dot-line", "a line/fragment starting with '.' is dropped in plain mode") && ok
			}
			if ok {
				return
			}
		}
	}
	viol("content-mismatch", d)
}

// isSubsequenceOfFrags: rest consists of some of the fragments, in order; the
// output may end inside a fragment (the client leaves while a long line is
// still being written to its stdout pipe: a write larger than PIPE_BUF is not
// atomic).
func isSubsequenceOfFrags(rest []byte, frags [][]byte) bool {
	for _, f := range frags {
		if bytes.HasPrefix(rest, f) {
			rest = rest[len(f):]
		} else if len(rest) > 0 && len(rest) < len(f) && bytes.HasPrefix(f, rest) {
			return true
		}
	}
	return len(rest) == 0
}

// stripRemote parses REMOTE|host|perc|count|id|payload records and returns the
// concatenated payloads; it checks the running count 1..n.
func stripRemote(out []byte, nMsgs int) ([]byte, string) {
	var payload bytes.Buffer
	rest := out
	count := 0
	for len(rest) > 0 {
		if !bytes.HasPrefix(rest, []byte("REMOTE|")) {
			return nil, fmt.Sprintf("record %d does not start with REMOTE|: %q", count+1, vlib.Trunc(string(rest), 80))
		}
		// fields: REMOTE host perc count id
		idx := 0
		pos := 0
		for k := 0; k < 5; k++ {
			j := bytes.IndexByte(rest[pos:], '|')
			if j < 0 {
				return nil, "short record"
			}
			if k == 3 {
				idx, _ = strconv.Atoi(strings.TrimSpace(string(rest[pos : pos+j])))
			}
			pos += j + 1
		}
		count++
		if idx != count {
			return nil, fmt.Sprintf("record %d carries line number %d", count, idx)
		}
		// payload runs to the next "\nREMOTE|" or the end
		end := len(rest)
		if j := bytes.Index(rest[pos:], []byte("\nREMOTE|")); j >= 0 {
			end = pos + j + 1
		}
		payload.Write(rest[pos:end])
		rest = rest[end:]
	}
	if count != nMsgs {
		return payload.Bytes(), fmt.Sprintf("%d records, want %d", count, nMsgs)
	}
	return payload.Bytes(), ""
}

func firstDiff(a, b []byte) int {
	n := min(len(a), len(b))
	for i := 0; i < n; i++ {
		if a[i] != b[i] {
			return i
		}
	}
	return n
}

func around(b []byte, at int) string {
	lo := at - 30
	if lo < 0 {
		lo = 0
	}
	hi := at + 30
	if hi > len(b) {
		hi = len(b)
	}
	return fmt.Sprintf("%q", b[lo:hi])
}

func min(a, b int) int {
	if a < b {
		return a
	}
	return b
}
