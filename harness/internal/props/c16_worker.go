//go:build w_c16

package props

import (
	"encoding/json"
	"fmt"
	"github.com/mimecast/dtail/internal/clients/handlers"
	"github.com/mimecast/dtail/internal/color/brush"
	"github.com/mimecast/dtail/internal/mapr"
	"github.com/mimecast/dtail/internal/source"
	"github.com/mimecast/dtail/verifharness/internal/dt"
	"github.com/mimecast/dtail/verifharness/internal/vlib"
	"os"
	"path/filepath"
	"strings"
	"sync"
)

func init() {
	Children["c16pure"] = c16PureChild
	Children["c16handler"] = c16HandlerChild
	Children["c16conc"] = c16ConcChild
	Children["c16table"] = c16TableChild
}

func c16PureChild(args []string) int {
	dir := args[0]
	dt.Init(source.Client, "none", "none", "error", false)
	return vlib.BatchMain(dir, func(i int, raw json.RawMessage) interface{} {
		var msgs []string
		json.Unmarshal(raw, &msgs)
		res := c16PureResult{}
		for _, hexm := range msgs {
			var m string
			fmt.Sscanf(hexm, "%x", &m)
			if hexm == "" {
				m = ""
			}
			// the culprit of a process-fatal panic is identified by this file
			os.WriteFile(filepath.Join(dir, "current"), []byte(hexm), 0644)
			colored := brush.Colorfy(m)
			res.N++
			got, want := stripSGR(colored), m
			if strings.Contains(m, "\x1b") {
				want = stripSGR(m)
			}
			if got != want && len(res.Mismatches) < 5 {
				res.Mismatches = append(res.Mismatches, hexm)
				res.Rendered = append(res.Rendered, fmt.Sprintf("%q", colored))
			}
		}
		return res
	})
}

// c16HandlerChild: vcheck child c16handler <streamfile> <kind> <color:0|1>
// feeds the stream into a real client handler; whatever it prints goes to stdout.
func c16HandlerChild(args []string) int {
	stream, err := os.ReadFile(args[0])
	if err != nil {
		return 2
	}
	kind := args[1]
	dt.Init(source.Client, "none", "stdout", "error", args[2] == "0")
	var h handlers.Handler
	switch kind {
	case "client":
		h = handlers.NewClientHandler("srv1")
	case "mapr":
		q, err := mapr.NewQuery("select count($line),last(x) from STATS group by host")
		if err != nil {
			return 2
		}
		h = handlers.NewMaprHandler("srv1", q, mapr.NewGlobalGroupSet())
	case "health":
		h = handlers.NewHealthHandler("srv1")
	}
	sizes := []int{1, 5, 3, 64, 2, 4096, 17, 32768}
	off, i := 0, 0
	for off < len(stream) {
		n := sizes[i%len(sizes)]
		i++
		if off+n > len(stream) {
			n = len(stream) - off
		}
		h.Write(stream[off : off+n])
		off += n
	}
	os.Stdout.Sync()
	return 0
}

// c16TableChild: vcheck child c16table <casefile> <color:0|1>
// A mapreduce client handler receives aggregate messages over several report
// intervals; after each interval the cumulative result table is printed the
// way dmap prints it.
func c16TableChild(args []string) int {
	raw, err := os.ReadFile(args[0])
	if err != nil {
		return 2
	}
	var c c16TableCase
	json.Unmarshal(raw, &c)
	dt.Init(source.Client, "none", "stdout", "error", args[1] == "0")
	q, err := mapr.NewQuery(c.Query)
	if err != nil {
		return 2
	}
	global := mapr.NewGlobalGroupSet()
	hs := map[string]handlers.Handler{}
	for _, iv := range c.Intervals {
		for _, m := range iv {
			srv := strings.SplitN(m, "|", 3)[1]
			h := hs[srv]
			if h == nil {
				h = handlers.NewMaprHandler(srv, q, global)
				hs[srv] = h
			}
			h.Write(append([]byte(m), 0xAC))
		}
		res, _, err := global.Result(q, c.RowsLimit)
		if err != nil {
			fmt.Println("ERROR", err)
		}
		fmt.Print(res)
		fmt.Println("=====")
	}
	os.Stdout.Sync()
	return 0
}

// c16ConcChild paints the messages of a batch from several goroutines at the
// same time (a client connected to several servers prints from one goroutine
// per connection; dlog calls Colorfy from all of them). Oracle as in the pure
// tier, per call.
func c16ConcChild(args []string) int {
	dir := args[0]
	dt.Init(source.Client, "none", "none", "error", false)
	return vlib.BatchMain(dir, func(i int, raw json.RawMessage) interface{} {
		var hexes []string
		json.Unmarshal(raw, &hexes)
		msgs := make([]string, len(hexes))
		for k, h := range hexes {
			if h != "" {
				fmt.Sscanf(h, "%x", &msgs[k])
			}
		}
		res := c16PureResult{}
		var mu sync.Mutex
		var wg sync.WaitGroup
		const G = 12
		for g := 0; g < G; g++ {
			wg.Add(1)
			go func(g int) {
				defer wg.Done()
				n := 0
				for round := 0; round < 3; round++ {
					for k := range msgs {
						m := msgs[(k*(2*g+1)+g*977)%len(msgs)]
						colored := brush.Colorfy(m)
						n++
						got, want := stripSGR(colored), m
						if strings.Contains(m, "\x1b") {
							want = stripSGR(m)
						}
						if got != want {
							mu.Lock()
							if len(res.Mismatches) < 5 {
								res.Mismatches = append(res.Mismatches, fmt.Sprintf("%x", m))
								res.Rendered = append(res.Rendered, fmt.Sprintf("%q", colored))
							}
							mu.Unlock()
						}
					}
				}
				mu.Lock()
				res.N += n
				mu.Unlock()
			}(g)
		}
		wg.Wait()
		return res
	})
}
