package props

import (
	"bytes"
	"encoding/base64"
	"fmt"
	"io"
	"math/rand"
	"net"
	"os"
	"path/filepath"
	"strings"
	"time"

	"github.com/mimecast/dtail/verifharness/internal/vlib"
	"golang.org/x/crypto/ssh"
)

// C09 — sessions are granted only to authorised keys and the fixed service users.

func init() {
	Drivers["C09"] = c09
}

// trySession dials, authenticates, opens a session + shell. Returns whether a
// shell could be opened, and the client for further use (nil if not).
func trySession(addr, user string, auth []ssh.AuthMethod, local string) (*ssh.Client, *ssh.Session, io.Reader, io.WriteCloser, error) {
	c, err := vlib.SSHDial(addr, user, auth, local)
	if err != nil {
		return nil, nil, nil, nil, err
	}
	s, err := c.NewSession()
	if err != nil {
		c.Close()
		return nil, nil, nil, nil, err
	}
	in, _ := s.StdinPipe()
	out, _ := s.StdoutPipe()
	if err := s.Shell(); err != nil {
		c.Close()
		return nil, nil, nil, nil, err
	}
	return c, s, out, in, nil
}

func encodeCommand(cmd string) string {
	return fmt.Sprintf("protocol 4.1 base64 %s;", base64.StdEncoding.EncodeToString([]byte(cmd)))
}

// readUntilQuiet reads from r until nothing arrived for `quiet` or max elapsed.
func readUntilQuiet(r io.Reader, quiet, max time.Duration) []byte {
	var buf bytes.Buffer
	ch := make(chan []byte, 16)
	go func() {
		b := make([]byte, 32768)
		for {
			n, err := r.Read(b)
			if n > 0 {
				ch <- append([]byte(nil), b[:n]...)
			}
			if err != nil {
				close(ch)
				return
			}
		}
	}()
	deadline := time.After(max)
	for {
		select {
		case b, ok := <-ch:
			if !ok {
				return buf.Bytes()
			}
			buf.Write(b)
		case <-time.After(quiet):
			return buf.Bytes()
		case <-deadline:
			return buf.Bytes()
		}
	}
}

type c09KeyLine struct {
	key     int
	options bool
	comment bool
}

func c09(r *vlib.Run) int {
	r.Rule("key cases: authorized_keys text = random interleaving of key lines for a subset A of a pool of rsa/ed25519/ecdsa-256/384/521 " +
		"keys (plain, with options, with comment), comment lines, blank and whitespace-only lines, with/without final newline " +
		"(junk lines only when the offered key is not in A); offered key k => session iff k in A. Multi-revision cases replace the " +
		"file between attempts (natural, preserved and older mtime). password cases: {DTAIL-HEALTH, DTAIL-SCHEDULE, " +
		"DTAIL-CONTINUOUS, ordinary} x {health password, every job name, wrong, empty} x source address 127.0.0.{1,2,3} against " +
		"AllowFrom lists; health sessions: only 'health' is answered with OK, no file content ever. distinct = distinct " +
		"(file text hash, offered key) resp. (user, password, source); non-trivial = file with >= 2 lines resp. all password cases.")
	r.Assume("CRLF line ends and unparseable junk lines are not part of a well-formed authorized_keys file (junk only appears where the expected verdict is reject)")
	kinds := []string{"rsa", "ed25519", "ed25519", "ecdsa256", "ecdsa384", "ecdsa521", "rsa", "ed25519"}
	var pool []*vlib.Key
	for _, k := range kinds {
		key, err := vlib.GenKey(k)
		if err != nil {
			r.Inconclusive("keygen")
			return 1
		}
		pool = append(pool, key)
	}
	jobs := func(names []string, allow [][]string, scheduled bool) []map[string]interface{} {
		var out []map[string]interface{}
		for i, n := range names {
			j := map[string]interface{}{"Name": n, "Enable": false, "Files": "/nonexistent/*.log", "Query": "select count($line) from X",
				"Outfile": "/nonexistent/out.csv", "AllowFrom": allow[i]}
			if scheduled {
				j["TimeRange"] = []int{0, 24}
			}
			out = append(out, j)
		}
		return out
	}
	schedNames := []string{"sched-a", "sched-b"}
	schedAllow := [][]string{{"127.0.0.1"}, {"127.0.0.2", "10.9.9.9"}}
	contNames := []string{"cont-a", "cont-b", "cont-c"}
	contAllow := [][]string{{"localhost"}, {}, {"127.0.0.3", "127.0.0.1"}}
	srvDirName := "c09"
	spec := &vlib.ServerSpec{
		Name: srvDirName,
		Server: map[string]interface{}{
			"MaxConnections": 400,
			"Schedule":       jobs(schedNames, schedAllow, true),
			"Continuous":     jobs(contNames, contAllow, false),
		},
		LogLevel: "error",
	}
	srv, err := r.StartServer(spec)
	if err != nil {
		r.Inconclusive("server-start: " + err.Error())
		return 1
	}
	defer srv.Stop()
	cache := filepath.Join(srv.Spec.Dir, "cache")
	// servers started with the integration-test switch explicitly OFF in the
	// spellings an operator may use; a stray ./id_rsa.pub (which test mode would
	// take for every user's authorized_keys) lies in their working directory
	type keySrv struct {
		srv   *vlib.Server
		cache string
		env   string
	}
	keySrvs := []keySrv{{srv, cache, ""}}
	for k, val := range []string{"no", "off", "0"} {
		es := &vlib.ServerSpec{Name: fmt.Sprintf("c09env%d", k), Server: map[string]interface{}{"MaxConnections": 400}, LogLevel: "error",
			Env: []string{"DTAIL_INTEGRATION_TEST_RUN_MODE=" + val}}
		es.Dir = r.Dir("srv-" + es.Name)
		os.WriteFile(filepath.Join(es.Dir, "id_rsa.pub"), []byte(pool[k%len(pool)].AuthKey+" stray@key\n"), 0644)
		if s2, err := r.StartServer(es); err == nil {
			defer s2.Stop()
			keySrvs = append(keySrvs, keySrv{s2, filepath.Join(s2.Spec.Dir, "cache"), val})
		} else {
			r.Inconclusive("env-server-start")
		}
	}

	// ---------------- key cases
	n := r.N(5000, 80000)
	rng := r.Rng("keys")
	type keyCase struct {
		user    string
		revs    []string // file revisions
		offered []int    // offered key per revision
		expect  []bool
		mtime   []string // natural | preserved | older
		nonTriv bool
		hasJunk bool
		shape   string
	}
	mkFile := func(lrng *rand.Rand, inA map[int]bool, allowJunk bool, off int) (string, string) {
		var lines []string
		shape := map[string]bool{}
		var members []int
		for k := range pool {
			if inA[k] {
				members = append(members, k)
			}
		}
		lrng.Shuffle(len(members), func(i, j int) { members[i], members[j] = members[j], members[i] })
		longText := func(n int) string {
			var b strings.Builder
			for b.Len() < n {
				fmt.Fprintf(&b, "10.%d.%d.0/24,", lrng.Intn(256), lrng.Intn(256))
			}
			return strings.TrimSuffix(b.String(), ",")
		}
		filler := func() {
			for lrng.Intn(3) == 0 {
				switch lrng.Intn(7) {
				case 5:
					// a comment line longer than any line buffer, ending in the
					// text of a key that is NOT authorised
					k := off
					if inA[k] {
						k = -1
						for q := range pool {
							if !inA[q] {
								k = q
								break
							}
						}
					}
					if k >= 0 {
						lines = append(lines, "# revoked "+strings.Repeat("x", 3000+lrng.Intn(6000))+" "+pool[k].AuthKey+" old@host")
						shape["long-comment-with-foreign-key"] = true
					}
				case 6:
					lines = append(lines, "# "+longText(4000+lrng.Intn(9000)))
					shape["long-comment"] = true
				case 0:
					lines = append(lines, "# a comment line")
					shape["comment"] = true
				case 1:
					lines = append(lines, "")
					shape["blank"] = true
				case 2:
					lines = append(lines, "   \t ")
					shape["wsonly"] = true
				case 3:
					lines = append(lines, "#ssh-ed25519 AAAAC3NzaC1lZDI1NTE5AAAAIcommentedoutkey x")
					shape["commented-key"] = true
				case 4:
					if allowJunk {
						lines = append(lines, "this is not a key line at all")
						shape["junk"] = true
					}
				}
			}
		}
		filler()
		for _, k := range members {
			l := pool[k].AuthKey
			switch lrng.Intn(4) {
			case 0:
				l = `no-pty,command="echo hi" ` + l
				shape["options"] = true
			case 1:
				// free text behind the key: anything, also words that look like parts of a key line
				typ := strings.Fields(pool[k].AuthKey)[0]
				l = l + " " + []string{"user@host some comment", "alice's " + typ + " key", typ + " " + typ, "ssh-rsa AAAAB3NzaC1yc2E= old key, replaced",
					"# not a comment", "key for " + typ + " AAAA", `command="x" no-pty`, "ecdsa-sha2-nistp256"}[lrng.Intn(8)]
				shape["keycomment"] = true
			case 2:
				l = `from="10.0.0.0/8",no-agent-forwarding ` + l + " c"
				shape["options"] = true
			}
			if lrng.Intn(8) == 0 {
				// option list longer than any line buffer (4-13 KB)
				l = `from="` + longText(4000+lrng.Intn(9000)) + `",no-pty ` + pool[k].AuthKey + " long@options"
				shape["long-options"] = true
			}
			if lrng.Intn(6) == 0 {
				l = "  " + l // leading blanks
				shape["leading-blank"] = true
			}
			lines = append(lines, l)
			filler()
		}
		text := strings.Join(lines, "\n")
		if lrng.Intn(4) != 0 {
			text += "\n"
			if lrng.Intn(4) == 0 {
				text += "\n# trailing comment\n"
				shape["trailing-comment"] = true
			}
		} else {
			shape["no-final-nl"] = true
		}
		var ss []string
		for s := range shape {
			ss = append(ss, s)
		}
		return text, strings.Join(ss, "+")
	}
	cases := make([]*keyCase, n)
	for i := range cases {
		c := &keyCase{user: fmt.Sprintf("u%d", i)}
		nrev := 1
		if rng.Intn(4) == 0 {
			nrev = 2 + rng.Intn(2)
		}
		for v := 0; v < nrev; v++ {
			inA := map[int]bool{}
			na := []int{0, 1, 1, 2, 3, 8}[rng.Intn(6)]
			for len(inA) < na {
				inA[rng.Intn(len(pool))] = true
			}
			off := rng.Intn(len(pool))
			if rng.Intn(2) == 0 && len(inA) > 0 {
				for k := range inA {
					off = k
					break
				}
			}
			if v > 0 && rng.Intn(2) == 0 {
				// revoke / keep testing the key of the previous revision
				off = c.offered[v-1]
			}
			text, shape := mkFile(rng, inA, !inA[off], off)
			c.revs = append(c.revs, text)
			c.offered = append(c.offered, off)
			c.expect = append(c.expect, inA[off])
			c.mtime = append(c.mtime, []string{"natural", "preserved", "older"}[rng.Intn(3)])
			c.shape = shape
			if strings.Count(text, "\n") >= 2 {
				c.nonTriv = true
			}
		}
		cases[i] = c
	}
	vlib.Parallel(n, 12, func(i int) {
		c := cases[i]
		ks := keySrvs[0]
		if i%4 == 3 {
			ks = keySrvs[(i/4)%len(keySrvs)]
		}
		srv, cache := ks.srv, ks.cache
		if ks.env != "" {
			r.Count("key_cases_on_servers_with_test_mode_switched_off_explicitly", 1)
		}
		path := filepath.Join(cache, c.user+".authorized_keys")
		defer os.Remove(path)
		var firstMtime time.Time
		for v := range c.revs {
			tmp := path + ".new"
			os.WriteFile(tmp, []byte(c.revs[v]), 0644)
			if v > 0 {
				switch c.mtime[v] {
				case "preserved":
					os.Chtimes(tmp, firstMtime, firstMtime)
				case "older":
					t := firstMtime.Add(-time.Hour)
					os.Chtimes(tmp, t, t)
				}
			}
			os.Rename(tmp, path)
			if v == 0 {
				if st, err := os.Stat(path); err == nil {
					firstMtime = st.ModTime()
				}
			}
			client, _, _, _, err := trySession(srv.Addr(), c.user, []ssh.AuthMethod{ssh.PublicKeys(pool[c.offered[v]].Signer)}, "")
			got := err == nil
			if client != nil {
				client.Close()
			}
			key := ""
			if c.nonTriv {
				key = fmt.Sprintf("key|%x|%d", hashStrings([]string{c.revs[v]}), c.offered[v])
			}
			r.Eval(key)
			r.SetAdd("file_shape", c.shape)
			r.SetAdd("offered_kind", pool[c.offered[v]].Kind)
			if v > 0 {
				r.Count("attempts_after_file_replacement_"+c.mtime[v], 1)
			}
			if c.expect[v] {
				r.Count("key_attempts_expected_accept", 1)
			} else {
				r.Count("key_attempts_expected_reject", 1)
			}
			if i < 2 && v == 0 {
				r.Sample(map[string]interface{}{"authorized_keys": vlib.Trunc(c.revs[v], 600), "offered": pool[c.offered[v]].Kind, "expect_session": c.expect[v]})
			}
			if got != c.expect[v] {
				what := "unauthorised-key-accepted"
				if c.expect[v] {
					what = "listed-key-rejected"
				}
				e := ""
				if err != nil {
					e = err.Error()
				}
				r.Violation(what, map[string]interface{}{"user": c.user, "revision": v, "mtime_mode": c.mtime[v], "authorized_keys": c.revs[v],
					"previous_revisions": c.revs[:v], "offered_key": pool[c.offered[v]].AuthKey, "error": e})
				return
			}
		}
	})

	// ---------------- password cases
	users := []string{"DTAIL-HEALTH", "DTAIL-SCHEDULE", "DTAIL-CONTINUOUS", "tester", "root", "dtail-health", "DTAIL-HEALTH "}
	passwords := append(append([]string{"DTAIL-HEALTH", "wrong", "", "DTAIL-SCHEDULE", "sched-a ", "SCHED-A"}, schedNames...), contNames...)
	// incl. addresses whose text merely starts with / contains an allowed address
	sources := []string{"127.0.0.1", "127.0.0.2", "127.0.0.3", "127.0.0.10", "127.0.0.19", "127.0.0.100", "127.0.0.21", "127.1.0.1", "127.0.0.31"}
	allowIPs := func(list []string) map[string]bool {
		m := map[string]bool{}
		for _, a := range list {
			if a == "localhost" {
				m["127.0.0.1"] = true
			} else {
				m[a] = true
			}
		}
		return m
	}
	expectPw := func(u, pw, src string) bool {
		switch u {
		case "DTAIL-HEALTH":
			return pw == "DTAIL-HEALTH"
		case "DTAIL-SCHEDULE":
			for i, nme := range schedNames {
				if pw == nme && allowIPs(schedAllow[i])[src] {
					return true
				}
			}
		case "DTAIL-CONTINUOUS":
			for i, nme := range contNames {
				if pw == nme && allowIPs(contAllow[i])[src] {
					return true
				}
			}
		}
		return false
	}
	type pwCase struct{ u, pw, src string }
	var pws []pwCase
	for _, u := range users {
		for _, pw := range passwords {
			for _, s := range sources {
				pws = append(pws, pwCase{u, pw, s})
			}
		}
	}
	reps := r.N(2, 12)
	vlib.Parallel(len(pws)*reps, 10, func(k int) {
		c := pws[k%len(pws)]
		client, _, _, _, err := trySession(srv.Addr(), c.u, []ssh.AuthMethod{ssh.Password(c.pw)}, c.src)
		got := err == nil
		if client != nil {
			client.Close()
		}
		want := expectPw(c.u, c.pw, c.src)
		r.Eval(fmt.Sprintf("pw|%s|%s|%s", c.u, c.pw, c.src))
		if want {
			r.Count("password_attempts_expected_accept", 1)
		} else {
			r.Count("password_attempts_expected_reject", 1)
		}
		if got != want {
			e := ""
			if err != nil {
				e = err.Error()
			}
			r.Violation("password-login-verdict", map[string]interface{}{"user": c.u, "password": c.pw, "source": c.src, "got_session": got, "want_session": want, "error": e})
		}
	})

	// ---------------- a server listening on every address (IPv6 too), jobs whose allow lists hold entries that cannot
	// be resolved (a network in CIDR notation, an empty entry, text that is no host name): nobody is "on" such a list,
	// whatever the form of the peer's address. An IPv6 peer is granted a job session at most when the list names ::1.
	func() {
		v6Names := []string{"v6-cidr", "v6-junk", "v6-loop6", "v6-loop4", "v6-mixed"}
		v6Allow := [][]string{{"10.1.2.0/24"}, {"", "not a host name"}, {"::1"}, {"127.0.0.1"}, {"", "127.0.0.2", "10.0.0.0/8"}}
		spec6 := &vlib.ServerSpec{Name: "c09v6", LogLevel: "error",
			Server: map[string]interface{}{"SSHBindAddress": "[::]", "MaxConnections": 400,
				"Schedule": jobs(v6Names, v6Allow, true), "Continuous": jobs(v6Names[:2], v6Allow[:2], false)}}
		srv6, err := r.StartServer(spec6)
		if err != nil {
			r.Inconclusive("ipv6-server-start: " + err.Error())
			return
		}
		defer srv6.Stop()
		type ep struct{ addr, local, src string }
		eps := []ep{{fmt.Sprintf("[::1]:%d", srv6.Spec.Port), "", "::1"}, {srv6.Addr(), "127.0.0.1", "127.0.0.1"}, {srv6.Addr(), "127.0.0.2", "127.0.0.2"}}
		if c, err := net.DialTimeout("tcp", eps[0].addr, 3*time.Second); err != nil {
			r.Count("ipv6_loopback_unavailable", 1)
			eps = eps[1:]
		} else {
			c.Close()
		}
		type v6Case struct {
			u, pw string
			e     ep
		}
		var cs []v6Case
		for _, u := range []string{"DTAIL-SCHEDULE", "DTAIL-CONTINUOUS", "DTAIL-HEALTH"} {
			for _, pw := range append([]string{"DTAIL-HEALTH", ""}, v6Names...) {
				for _, e := range eps {
					cs = append(cs, v6Case{u, pw, e})
				}
			}
		}
		vlib.Parallel(len(cs)*r.N(2, 10), 8, func(k int) {
			c := cs[k%len(cs)]
			client, _, _, _, err := trySession(c.e.addr, c.u, []ssh.AuthMethod{ssh.Password(c.pw)}, c.e.local)
			got := err == nil
			if client != nil {
				client.Close()
			}
			must, may := false, false
			switch c.u {
			case "DTAIL-HEALTH":
				must = c.pw == "DTAIL-HEALTH"
			case "DTAIL-SCHEDULE", "DTAIL-CONTINUOUS":
				for i, nme := range v6Names {
					if c.u == "DTAIL-CONTINUOUS" && i >= 2 {
						break
					}
					if c.pw != nme {
						continue
					}
					for _, a := range v6Allow[i] {
						if a == c.e.src {
							if c.e.src == "::1" {
								may = true // the statement says "only"; whether IPv6 peers can be listed at all is not its subject
							} else {
								must = true
							}
						}
					}
				}
			}
			r.Eval(fmt.Sprintf("pw6|%s|%s|%s", c.u, c.pw, c.e.src))
			r.Count("password_attempts_on_the_all_addresses_server_from_"+c.e.src, 1)
			if got != must && !(got && may) {
				e := ""
				if err != nil {
					e = err.Error()
				}
				r.Violation("password-login-verdict", map[string]interface{}{"server": "listening on [::]", "user": c.u, "password": c.pw, "source": c.e.src,
					"allow_lists": v6Allow, "jobs": v6Names, "got_session": got, "want_session": must, "error": e})
			}
		})
		if !srv6.D.Alive() {
			r.Violation("server-died", map[string]interface{}{"server": "listening on [::]", "log": vlib.Trunc(string(srv6.D.Log()), 3000)})
		}
	}()

	// ---------------- the real clients of the fixed service users: dtailhealth
	// must get its health session (exit 0, "OK"); a session is granted "to the
	// health user with the health password", and the client is what presents it
	for k := 0; k < r.N(3, 12); k++ {
		home := r.Dir(fmt.Sprintf("c09health%d", k))
		res := vlib.RunCmd(vlib.Cmd{Path: r.Bin("dtailhealth"), Args: []string{"--server", srv.Addr()}, Env: []string{"HOME=" + home}, Dir: home, Watchdog: 60 * time.Second})
		r.Eval(fmt.Sprintf("dtailhealth|%d", k))
		r.Count("real_dtailhealth_runs", 1)
		if res.TimedOut {
			r.Inconclusive("dtailhealth-watchdog")
			continue
		}
		if res.Exit != 0 || !strings.Contains(string(res.Stdout), "OK") || res.Hung {
			r.Violation("health-client-refused", map[string]interface{}{"exit": res.Exit, "hung": res.Hung, "stdout": vlib.Trunc(string(res.Stdout), 400), "stderr": vlib.Trunc(string(res.Stderr), 600)})
		}
		os.RemoveAll(home)
	}
	// ---------------- health sessions can run nothing but health
	secret := filepath.Join(srv.Spec.Dir, "secret.log")
	os.WriteFile(secret, []byte("HEALTHSECRET-0123456789\n"), 0644)
	cmds := []string{"health", "cat " + secret + " regex:noop ", "cat:plain=true " + secret + " regex:noop ", "grep " + secret + " regex:default HEALTH",
		"tail " + secret + " regex:noop ", "map select count($line) from X", "cat", "", ".ack close connection", "health cat " + secret,
		"cat:quiet=true " + secret, "HEALTH", "health;cat " + secret}
	hn := r.N(120, 2000)
	hrng := r.Rng("health")
	plan := make([][]string, hn)
	for i := range plan {
		k := 1 + hrng.Intn(3)
		for j := 0; j < k; j++ {
			plan[i] = append(plan[i], cmds[hrng.Intn(len(cmds))])
		}
	}
	vlib.Parallel(hn, 8, func(i int) {
		client, _, out, in, err := trySession(srv.Addr(), "DTAIL-HEALTH", []ssh.AuthMethod{ssh.Password("DTAIL-HEALTH")}, "")
		r.Eval(fmt.Sprintf("health|%v", plan[i]))
		if err != nil {
			r.Violation("health-login-refused", map[string]interface{}{"error": err.Error()})
			return
		}
		defer client.Close()
		for _, c := range plan[i] {
			io.WriteString(in, encodeCommand(c))
		}
		resp := readUntilQuiet(out, 400*time.Millisecond, 8*time.Second)
		r.Count("health_sessions", 1)
		if bytes.Contains(resp, []byte("HEALTHSECRET")) || bytes.Contains(resp, []byte("REMOTE|")) {
			r.Violation("health-session-read-a-file", map[string]interface{}{"commands": plan[i], "response": vlib.Trunc(string(resp), 1500)})
		}
		if plan[i][0] == "health" && !bytes.Contains(resp, []byte("OK")) {
			r.Violation("health-command-not-answered", map[string]interface{}{"commands": plan[i], "response": vlib.Trunc(string(resp), 1500)})
		}
	})
	if !srv.D.Alive() {
		r.Violation("server-died", map[string]interface{}{"log": vlib.Trunc(string(srv.D.Log()), 3000)})
	}
	return n / 2
}
