package props

import (
	"bytes"
	"encoding/json"
	"fmt"
	"hash/crc32"
	"io"
	"math/rand"
	"os"
	"os/exec"
	"path/filepath"
	"strconv"
	"strings"
	"sync"
	"time"

	"github.com/mimecast/dtail/verifharness/internal/mq"
	"github.com/mimecast/dtail/verifharness/internal/vlib"
	"golang.org/x/crypto/ssh"
)

// C06 — mapreduce accounts for every file of every server under any scheduling.

func init() {
	Drivers["C06"] = c06
}

func c06Line(fid string, g, seq int) string {
	return fmt.Sprintf("INFO|1002-071209|1|m.go:1|8|14|7|0.21|471h|MAPREDUCE:CONS|fid=%s|g=g%d|w=1|seq=%d", fid, g, seq)
}

type c06Fleet struct {
	fl     *fleet
	traces []string
	offs   []int
	limit  int
	points string
	// clientPoints: VERIF_POINTS of the dmap client process
	clientPoints string
}

type c06FileSpec struct {
	srv   int
	fid   string
	lines int
}

func c06(r *vlib.Run) int {
	min := c06Body(r)
	if r.Tier == "thorough" || os.Getenv("VERIF_FORCE_RACE") != "" {
		// secondary monitor: the same workload (reduced) against -race builds
		r.RacePass([]string{"mapr.(*GlobalGroupSet)", "mapr.(*GroupSet)", "mapr.(*AggregateSet)", "mapr/server.(*Aggregate)", "mapr/client.(*Aggregate)", "clients.(*MaprClient)"}, func() { c06Body(r) })
	}
	return min
}

func c06Body(r *vlib.Run) int {
	r.Rule("conservation: every input line has weight 1 and belongs to a file with a unique id; queries group by file id (per-file " +
		"accounting) or by a small group column (same group merged from many servers). W1: fleets of 1-32 servers with one file each " +
		"(simultaneous delivery, interval 1, final report): every deficit or excess is a violation. W2: 1-4 servers x 1-12 files x " +
		"MaxConcurrentCats {1,2,4} x file sizes {1,2,99,101,5000}: strict unless the hook trace shows the server-side aggregator " +
		"(and with it the session) finishing before all read commands of the session had been received (recorded finding, the " +
		"mapreduce face of c02.cmd-race). In-process tier: N goroutines merging the same K " +
		"messages concurrently into one global group must yield N*K. distinct = distinct (fleet shape, file sizes, query) runs; " +
		"non-trivial = at least 2 files in the run.")
	r.Assume("termination is decided by the logical-time hang rule")
	r.Assume("a deficit is attributed to c06.cmd-race only if the trace of that server shows 'no more channels' before every read command of the session was received, and no group shows an excess")
	rng := r.Rng("e2e")
	type fleetPlan struct {
		n, limit int
		points   string
		w2       bool
	}
	plans := []fleetPlan{{1, 2, "", false}, {4, 2, "", false}, {12, 2, "mapr.cli.merge=sleep(2)~0.3", false}, {32, 2, "", false},
		{1, 1, "", true}, {2, 2, "srv.mapr.reg=sleep(3)~0.3;mapr.agg.take=yield", true}, {3, 4, "", true}, {4, 1, "mapr.agg.requeue=sleep(1)~0.5", true}}
	if !r.Thorough() {
		plans = []fleetPlan{{1, 2, "", false}, {6, 2, "mapr.cli.merge=sleep(2)~0.3", false}, {24, 2, "", false},
			{1, 1, "", true}, {2, 2, "srv.mapr.reg=sleep(3)~0.3;mapr.agg.take=yield", true}, {3, 4, "", true}}
	}
	runsPer := r.N(7, 90)
	seeds := make([]int64, len(plans))
	for i := range seeds {
		seeds[i] = rng.Int63()
	}
	vlib.Parallel(len(plans), 4, func(pi int) {
		p := plans[pi]
		prng := rand.New(rand.NewSource(seeds[pi]))
		name := fmt.Sprintf("c06p%d", pi)
		env := []string{"VERIF_TRACE=trace.jsonl"} // relative to each server's working directory
		if p.points != "" {
			env = append(env, "VERIF_POINTS="+p.points, fmt.Sprintf("VERIF_POINTS_SEED=%d", seeds[pi]))
		}
		fl, err := startFleet(r, name, p.n, map[string]interface{}{"MaxConcurrentCats": p.limit, "MaxConnections": 50}, env, "error")
		if err != nil {
			r.Inconclusive("fleet-start")
			return
		}
		defer fl.Stop()
		cf := &c06Fleet{fl: fl, limit: p.limit, points: p.points}
		for _, s := range fl.Servers {
			cf.traces = append(cf.traces, filepath.Join(s.Spec.Dir, "trace.jsonl"))
			cf.offs = append(cf.offs, 0)
		}
		for run := 0; run < runsPer; run++ {
			c06Run(r, cf, prng, pi, run, p.w2, false)
		}
		if !fl.AllAlive() {
			r.Violation("server-died", map[string]interface{}{"fleet": p})
		}
	})
	var absent sync.WaitGroup
	absent.Add(3)
	go func() { defer absent.Done(); c06ManyFiles(r) }()
	go func() { defer absent.Done(); c06Absent(r) }()
	go func() { defer absent.Done(); c06SlotsBusy(r) }()
	c06Provoke(r)
	c06LongRun(r)
	c06PipeRuns(r)
	c06Systematic(r)
	c06AggTier(r)
	c06Merge(r)
	absent.Wait()
	return len(plans) * runsPer / 2
}

// c06Provoke: (1) regression guard for the repaired early exit (fixed:
// property=C06 ...): the second file's reader is held back for 700 ms after it
// acquired its slot while the first file finishes; the aggregator has to wait
// for it, the result must be complete. (2) the recorded finding c06.cmd-race
// reproduced deterministically: the client pauses 400 ms between the commands
// of the session, the aggregator and the session are finished before the
// second read command arrives.
func c06Provoke(r *vlib.Run) {
	for k, cp := range []string{"", "cli.cmd.sent=sleep(400)"} {
		env := []string{"VERIF_TRACE=trace.jsonl"}
		if cp == "" {
			env = append(env, "VERIF_POINTS=srv.lim.acq=sleep(700)@2")
		}
		fl, err := startFleet(r, fmt.Sprintf("c06prov%d", k), 1, map[string]interface{}{"MaxConcurrentCats": 2, "MaxConnections": 50}, env, "error")
		if err != nil {
			r.Inconclusive("fleet-start")
			return
		}
		cf := &c06Fleet{fl: fl, limit: 2, traces: []string{filepath.Join(fl.Servers[0].Spec.Dir, "trace.jsonl")}, offs: []int{0}, clientPoints: cp,
			points: "srv.lim.acq=sleep(700)@2"}
		if cp != "" {
			cf.points = ""
		}
		c06Run(r, cf, rand.New(rand.NewSource(r.Seed)), 99, k, true, true)
		fl.Stop()
	}
}

func c06Run(r *vlib.Run, cf *c06Fleet, rng *rand.Rand, pi, run int, w2 bool, provoke bool) {
	fl := cf.fl
	sub := fmt.Sprintf("in%d", run)
	var specs []c06FileSpec
	nFiles := 1
	if w2 {
		nFiles = 1 + rng.Intn(12)
	}
	if provoke {
		nFiles = 2
	}
	sizes := []int{1, 2, 99, 101, 5000}
	groups := 1 + rng.Intn(4)
	byGroup := rng.Intn(3) == 0 && !provoke
	expCount := map[string]int{}
	var files []string
	for f := 0; f < nFiles; f++ {
		files = append(files, filepath.Join(sub, fmt.Sprintf("m%02d.log", f)))
	}
	for s := range fl.Servers {
		for f := 0; f < nFiles; f++ {
			n := sizes[rng.Intn(len(sizes))]
			if provoke {
				n = 20
			}
			fid := fmt.Sprintf("s%df%d", s, f)
			var b bytes.Buffer
			for q := 1; q <= n; q++ {
				g := q % groups
				b.WriteString(c06Line(fid, g, q))
				b.WriteByte('\n')
				if q%17 == 0 {
					b.WriteString("INFO|1002-071209|1|m.go:1|8|14|7|0.21|471h|MAPREDUCE:OTHER|fid=zz|g=g9|w=1|seq=1\n")
				}
				if byGroup {
					expCount[fmt.Sprintf("g%d", g)]++
				}
			}
			if !byGroup {
				expCount[fid] = n
			}
			fl.WriteFile(s, files[f], b.Bytes())
			specs = append(specs, c06FileSpec{s, fid, n})
		}
	}
	defer func() {
		for s := range fl.Servers {
			os.RemoveAll(filepath.Join(fl.Servers[s].Spec.Dir, sub))
		}
	}()
	out := filepath.Join(fl.Home, fmt.Sprintf("out-%d-%d.csv", pi, run))
	os.Remove(out)
	keyCol := "fid"
	if byGroup {
		keyCol = "g"
	}
	// avg(w) is 1 for every group (every line has weight 1), however many
	// partial results the group was merged from
	query := fmt.Sprintf("from CONS select %s,count($line),sum(w),avg(w) group by %s outfile %s", keyCol, keyCol, out)
	if rng.Intn(2) == 0 {
		query += " interval 1"
	}
	args := append(fl.ClientArgs(), "--logger", "stdout", "--logLevel", "error", "--noColor", "--files", strings.Join(files, ","), "--query", query)
	cenv := fl.ClientEnv()
	if cf.clientPoints != "" {
		cenv = append(cenv, "VERIF_POINTS="+cf.clientPoints)
	}
	res := vlib.RunCmd(vlib.Cmd{Path: r.Bin("dmap"), Args: args, Env: cenv, Dir: fl.Home, Watchdog: 300 * time.Second})
	time.Sleep(20 * time.Millisecond)
	// collect this run's trace events per server
	early := map[int]string{}   // recorded finding: a read command arrived after the aggregator had finished
	leftOut := map[int]string{} // never acceptable: all commands were there, files were left out
	var sig []string
	for s := range fl.Servers {
		all := readTrace(cf.traces[s])
		evs := all
		if cf.offs[s] <= len(all) {
			evs = all[cf.offs[s]:]
		}
		cf.offs[s] = len(all)
		reg, closed, recvRead := 0, 0, 0
		for _, e := range evs {
			switch e.Name {
			case "srv.cmd.recv":
				if len(e.KV) > 1 && (e.KV[1] == "cat" || e.KV[1] == "grep" || e.KV[1] == "tail") {
					recvRead++
					sig = append(sig, "k")
				}
			case "srv.mapr.reg":
				reg++
				sig = append(sig, "r")
			case "mapr.agg.closed":
				closed++
				if len(sig) == 0 || sig[len(sig)-1] != "c" {
					sig = append(sig, "c") // the aggregator polls a closed channel while input is announced
				}
			case "mapr.agg.take":
				sig = append(sig, "t")
			case "mapr.agg.requeue":
				sig = append(sig, "q")
			case "mapr.agg.nomore":
				sig = append(sig, "N")
				if recvRead < nFiles {
					early[s] = fmt.Sprintf("aggregator finished when %d of %d read commands had been received (%d files registered)", recvRead, nFiles, reg)
				} else if reg < nFiles {
					leftOut[s] = fmt.Sprintf("aggregator finished with all %d read commands received but only %d files registered", nFiles, reg)
				}
			}
		}
		sig = append(sig, "/")
	}
	r.SetAdd("aggregator_event_order_signatures", fmt.Sprintf("%x", hashStrings(sig)))
	key := ""
	if len(specs) >= 2 {
		var szs []int
		for _, sp := range specs {
			szs = append(szs, sp.lines)
		}
		key = fmt.Sprintf("%d|%d|%v|%v|%s", len(fl.Servers), nFiles, szs, byGroup, cf.points)
	}
	r.Eval(key)
	r.SetAdd("cell", fmt.Sprintf("srv%d/files%d/limit%d/bygroup%v", len(fl.Servers), nFiles, cf.limit, byGroup))
	if pi < 2 && run == 0 {
		r.Sample(map[string]interface{}{"servers": len(fl.Servers), "files_per_server": nFiles, "query": query, "events": vlib.Trunc(strings.Join(sig, ""), 200)})
	}
	if res.TimedOut {
		r.Inconclusive("dmap-watchdog")
		return
	}
	detail := map[string]interface{}{"servers": len(fl.Servers), "files_per_server": nFiles, "limit": cf.limit, "query": query,
		"points": cf.points, "client_points": cf.clientPoints, "exit": res.Exit, "hung": res.Hung, "command_race_seen_in_trace": early, "files_left_out_seen_in_trace": leftOut,
		"stderr": vlib.Trunc(string(res.Stderr), 1200), "events": vlib.Trunc(strings.Join(sig, ""), 400)}
	got := map[string]int{}
	gotSum := map[string]float64{}
	badAvg := map[string]string{}
	if b, err := os.ReadFile(out); err == nil {
		_, rows := mq.ParseCSV(string(b))
		for _, row := range rows {
			if len(row) == 4 {
				c, _ := strconv.Atoi(row[1])
				got[row[0]] += c
				f, _ := strconv.ParseFloat(row[2], 64)
				gotSum[row[0]] += f
				if a, err := strconv.ParseFloat(row[3], 64); err != nil || a < 0.999 || a > 1.001 {
					badAvg[row[0]] = row[3]
				}
			}
		}
		os.Remove(out)
		os.Remove(out + ".query")
	} else if !res.Hung {
		detail["outfile_error"] = err.Error()
	}
	deficit, excess := map[string]int{}, map[string]int{}
	total, totalGot := 0, 0
	for k, want := range expCount {
		total += want
		totalGot += got[k]
		if got[k] < want {
			deficit[k] = want - got[k]
		}
		if got[k] > want || int(gotSum[k]+0.5) > want {
			excess[k] = got[k] - want
		}
		if int(gotSum[k]+0.5) != got[k] {
			excess[k+"(sum!=count)"] = int(gotSum[k]+0.5) - got[k]
		}
	}
	for k := range got {
		if _, ok := expCount[k]; !ok {
			excess[k] = got[k]
		}
	}
	r.Count("lines_accounted", totalGot)
	r.Count("e2e_runs", 1)
	if len(badAvg) > 0 {
		detail["groups_whose_average_weight_is_not_1"] = badAvg
		r.Violation("merged-partial-results-inconsistent", detail)
		return
	}
	if len(deficit) == 0 && len(excess) == 0 && res.Exit == 0 && !res.Hung {
		return
	}
	detail["deficit"] = deficit
	detail["excess"] = excess
	// attribution to the recorded finding
	if len(excess) == 0 && nFiles > 1 && len(early) > 0 && len(leftOut) == 0 && (len(deficit) > 0 || res.Hung) {
		ok := true
		if !byGroup && !res.Hung {
			for k := range deficit {
				// k = s<srv>f<file>
				var s, f int
				fmt.Sscanf(k, "s%df%d", &s, &f)
				if _, e := early[s]; !e {
					ok = false
				}
			}
		}
		if ok && r.Known("c06.cmd-race", "multi-command session: aggregator and session finished before a later read command was received; that file's lines are missing (same root cause as c02.cmd-race)") {
			r.Count("cmd_race_runs", 1)
			return
		}
	}
	what := "lines-missing-from-result"
	switch {
	case res.Hung:
		what = "dmap-did-not-terminate"
	case len(excess) > 0:
		what = "lines-counted-more-than-once"
	case res.Exit != 0:
		what = "exit-status"
	}
	r.Violation(what, detail)
}

// c06LongRun: runs which last several report intervals and have large partial
// results (many groups): interim transmissions, their hand-over and the final
// one all happen while lines still arrive; every line must be accounted for.
func c06LongRun(r *vlib.Run) {
	nRuns := r.N(4, 12)
	fl, err := startFleet(r, "c06long", 2, map[string]interface{}{"MaxConcurrentCats": 2, "MaxConnections": 50}, nil, "error")
	if err != nil {
		r.Inconclusive("fleet-start")
		return
	}
	defer fl.Stop()
	groups := r.N(6000, 60000)
	perSrv := r.N(20000, 150000)
	for s := range fl.Servers {
		var b bytes.Buffer
		for q := 0; q < perSrv; q++ {
			fmt.Fprintf(&b, "INFO|1002-071209|1|m.go:1|8|14|7|0.21|471h|MAPREDUCE:CONS|fid=k%d|g=g1|w=1|seq=%d\n", (q*7+s)%groups, q)
		}
		fl.WriteFile(s, "long/in.log", b.Bytes())
	}
	vlib.Parallel(nRuns, 2, func(run int) {
		out := filepath.Join(fl.Home, fmt.Sprintf("long-%d.csv", run))
		query := "from CONS select fid,count($line),sum(w) group by fid interval 1 limit 1000000 outfile " + out
		args := append(fl.ClientArgs(), "--logger", "stdout", "--logLevel", "error", "--noColor", "--files", "long/in.log", "--query", query)
		res := vlib.RunCmd(vlib.Cmd{Path: r.Bin("dmap"), Args: args, Env: fl.ClientEnv(), Dir: fl.Home, Watchdog: 300 * time.Second})
		r.Eval(fmt.Sprintf("longrun|%d", run))
		r.Count("long_runs", 1)
		r.Max("long_run_max_wall_ms", int(res.Wall.Milliseconds()))
		if res.TimedOut {
			r.Inconclusive("dmap-watchdog")
			return
		}
		total := 0
		if b, err := os.ReadFile(out); err == nil {
			_, rows := mq.ParseCSV(string(b))
			for _, row := range rows {
				if len(row) == 3 {
					c, _ := strconv.Atoi(row[1])
					total += c
				}
			}
		}
		os.Remove(out)
		os.Remove(out + ".query")
		want := perSrv * len(fl.Servers)
		r.Count("lines_accounted", total)
		if total != want || res.Exit != 0 || res.Hung {
			what := "lines-missing-from-result"
			if total > want {
				what = "lines-counted-more-than-once"
			} else if res.Hung {
				what = "dmap-did-not-terminate"
			}
			r.Violation(what, map[string]interface{}{"scenario": fmt.Sprintf("long run: 2 servers x %d lines, %d groups, interval 1, one file per server", perSrv, groups),
				"lines_in_result": total, "want": want, "exit": res.Exit, "hung": res.Hung, "wall_s": res.Wall.Seconds(), "stderr": vlib.Trunc(string(res.Stderr), 800)})
		}
	})
	for s := range fl.Servers {
		os.RemoveAll(filepath.Join(fl.Servers[s].Spec.Dir, "long"))
	}
}

// c06PipeRuns: serverless dmap reading its input from a pipe that stays open
// for 1-2 report intervals after 120 000 lines in 120 000 groups were written:
// a large interim result is being handed over when the input ends and the final
// result follows. Every line must be in the final result.
func c06PipeRuns(r *vlib.Run) {
	// delay between the last byte written and the end of the input, spread over
	// one report interval (the reader needs ~2 s for the 120 000 lines, so one or
	// two interim reports happen meanwhile)
	ends := []int{0, 200, 450, 700}
	if r.Thorough() {
		ends = nil
		for d := 0; d < 2000; d += 50 {
			ends = append(ends, d)
		}
	}
	n := 120000
	var input bytes.Buffer
	for q := 0; q < n; q++ {
		fmt.Fprintf(&input, "INFO|1002-071209|1|m.go:1|8|14|7|0.21|471h|MAPREDUCE:CONS|fid=k%d|g=g1|w=1|seq=%d\n", q, q)
	}
	home := serverlessHome(r)
	// two at a time: the more groups arrive per report interval, the longer an
	// interim hand-over lasts
	vlib.Parallel(len(ends), 2, func(i int) {
		out := filepath.Join(home, fmt.Sprintf("pipe-%d.csv", i))
		os.Remove(out)
		query := "from CONS select fid,count($line) group by fid interval 1 limit 10000000 outfile " + out
		cmd := exec.Command(r.Bin("dmap"), "--cfg", "none", "--logger", "stdout", "--logLevel", "error", "--noColor", "--files", "-", "--query", query)
		cmd.Dir = home
		cmd.Env = append(vlib.BaseEnv(home))
		stdin, _ := cmd.StdinPipe()
		var se bytes.Buffer
		cmd.Stderr = &se
		t0 := time.Now()
		if err := cmd.Start(); err != nil {
			r.Inconclusive("dmap-start")
			return
		}
		go func() {
			stdin.Write(input.Bytes())
			time.Sleep(time.Duration(ends[i]) * time.Millisecond)
			stdin.Close()
		}()
		done := make(chan error, 1)
		go func() { done <- cmd.Wait() }()
		var err error
		select {
		case err = <-done:
		case <-time.After(25 * time.Second):
			// The aggregator sleeps 100 ms whenever it finds its 100-line queue
			// empty; once it has caught up with the reader the run proceeds at
			// ~1000 lines/s and interim results are tiny. Such a run cannot show
			// what this scenario is about and is not judged.
			cmd.Process.Kill()
			<-done
			r.Eval("")
			r.Count("pipe_runs_in_slow_regime_not_judged", 1)
			return
		}
		r.Max("pipe_run_max_wall_ms", int(time.Since(t0).Milliseconds()))
		r.Eval(fmt.Sprintf("piperun|%d", ends[i]))
		r.Count("pipe_runs", 1)
		total := 0
		if b, e := os.ReadFile(out); e == nil {
			_, rows := mq.ParseCSV(string(b))
			for _, row := range rows {
				if len(row) == 2 {
					c, _ := strconv.Atoi(row[1])
					total += c
				}
			}
		}
		os.Remove(out)
		os.Remove(out + ".query")
		r.Count("lines_accounted", total)
		if total != n || err != nil {
			what := "lines-missing-from-result"
			if total > n {
				what = "lines-counted-more-than-once"
			}
			r.Violation(what, map[string]interface{}{"scenario": fmt.Sprint("serverless dmap on a pipe: ", n, " lines/groups, interval 1, input ends ") + fmt.Sprint(ends[i]) + " ms after the last line was written",
				"lines_in_result": total, "want": n, "error": fmt.Sprint(err), "stderr": vlib.Trunc(se.String(), 800)})
		}
	})
}

// c06SlotsBusy: every read slot of the server is held by another session (a
// cat whose output is not read) when the mapreduce session arrives; all its
// files - one glob, i.e. one read command - wait for a slot for more than a
// second. The aggregator has to wait for the announced input: complete result.
func c06SlotsBusy(r *vlib.Run) {
	fl, err := startFleet(r, "c06busy", 1, map[string]interface{}{"MaxConcurrentCats": 1, "MaxConnections": 50}, nil, "error")
	if err != nil {
		r.Inconclusive("fleet-start")
		return
	}
	defer fl.Stop()
	var big bytes.Buffer
	for k := 0; k < 120000; k++ {
		fmt.Fprintf(&big, "%07d filler line of the session that holds the read slot 0123456789 abcdefghij\n", k)
	}
	blocker := fl.WriteFile(0, "busy/blocker.log", big.Bytes())
	for run := 0; run < r.N(2, 10); run++ {
		sub := fmt.Sprintf("busy%d", run)
		total := 0
		nFiles := 1 + run%3
		for f := 0; f < nFiles; f++ {
			var b bytes.Buffer
			for q := 1; q <= 150+40*f; q++ {
				b.WriteString(c06Line(fmt.Sprintf("f%d", f), 0, q) + "\n")
				total++
			}
			fl.WriteFile(0, filepath.Join(sub, fmt.Sprintf("t%d.log", f)), b.Bytes())
		}
		// the blocker: takes the only slot and does not read its output
		bc, _, _, bin, err := trySession(fl.Servers[0].Addr(), fl.User, []ssh.AuthMethod{ssh.PublicKeys(fl.Key.Signer)}, "")
		if err != nil {
			r.Inconclusive("blocker-session")
			continue
		}
		io.WriteString(bin, encodeCommand("cat:plain=true "+blocker+" regex:noop "))
		time.Sleep(400 * time.Millisecond)
		release := time.AfterFunc(time.Duration(1200+300*run)*time.Millisecond, func() { bc.Close() })
		out := filepath.Join(fl.Home, fmt.Sprintf("busy-%d.csv", run))
		query := "from CONS select fid,count($line) group by fid outfile " + out
		args := append(fl.ClientArgs(), "--logger", "stdout", "--logLevel", "error", "--noColor", "--files", filepath.Join(sub, "t*.log"), "--query", query)
		res := vlib.RunCmd(vlib.Cmd{Path: r.Bin("dmap"), Args: args, Env: fl.ClientEnv(), Dir: fl.Home, Watchdog: 120 * time.Second})
		release.Stop()
		bc.Close()
		got := 0
		if b, err := os.ReadFile(out); err == nil {
			_, rows := mq.ParseCSV(string(b))
			for _, row := range rows {
				if len(row) == 2 {
					c, _ := strconv.Atoi(row[1])
					got += c
				}
			}
		}
		os.Remove(out)
		os.Remove(out + ".query")
		os.RemoveAll(filepath.Join(fl.Servers[0].Spec.Dir, sub))
		r.Eval(fmt.Sprintf("slots-busy|%d", run))
		r.Count("runs_arriving_while_every_read_slot_is_held", 1)
		r.Count("lines_accounted", got)
		if res.TimedOut {
			r.Inconclusive("dmap-watchdog")
			continue
		}
		detail := map[string]interface{}{"scenario": "the server's only read slot is held by another session for more than a second when the mapreduce session (one glob) arrives",
			"files": nFiles, "lines_in_result": got, "want": total, "hung": res.Hung, "exit": res.Exit}
		switch {
		case res.Hung:
			r.Violation("dmap-did-not-terminate", detail)
		case got != total:
			r.Violation("files-queued-behind-the-limit-left-out", detail)
		case res.Exit != 0:
			r.Violation("exit-status", detail)
		}
	}
}

// c06Absent: servers on which the requested file does not exist (or the glob
// matches nothing, or the user may not read it). "Any number of files" includes
// none: the run must account for the files of the other servers and terminate
// (it used to hang for ever: fixed: property=C06 ... no file to read).
// c06ManyFiles: one session over more files than the aggregator's queue of registered files holds (100), all of them
// readable at once (MaxConcurrentCats 400), one of them slow to read (long lines): the queue is full while the
// aggregator rotates from a momentarily empty file to the next. Every line must be counted and the run must end.
func c06ManyFiles(r *vlib.Run) {
	fl, err := startFleet(r, "c06many", 1, map[string]interface{}{"MaxConcurrentCats": 400, "MaxConnections": 50}, []string{"VERIF_TRACE=trace.jsonl"}, "error")
	if err != nil {
		r.Inconclusive("fleet-start")
		return
	}
	defer fl.Stop()
	for k := 0; k < r.N(1, 3); k++ {
		dir := fmt.Sprintf("many%d", k)
		want := 0
		var b bytes.Buffer
		pad := strings.Repeat("x", 20000)
		for q := 1; q <= 400; q++ {
			b.WriteString(c06Line("big", 0, q) + "|pad=" + pad + "\n")
			want++
		}
		fl.WriteFile(0, filepath.Join(dir, "a-big.log"), b.Bytes())
		nSmall := 130 + 50*k
		for f := 0; f < nSmall; f++ {
			b.Reset()
			for q := 1; q <= 3; q++ {
				b.WriteString(c06Line(fmt.Sprintf("f%d", f), 0, q) + "\n")
				want++
			}
			fl.WriteFile(0, filepath.Join(dir, fmt.Sprintf("s%03d.log", f)), b.Bytes())
		}
		out := filepath.Join(fl.Home, fmt.Sprintf("many-%d.csv", k))
		os.Remove(out)
		query := "from CONS select g,count($line) group by g interval 2 outfile " + out
		args := append(fl.ClientArgs(), "--logger", "stdout", "--logLevel", "error", "--noColor", "--files", filepath.Join(dir, "*.log"), "--query", query)
		start := time.Now()
		// (client and server are both idle most of the time - the aggregator pauses 100 ms at every switch of file, 231
		// files take 23 s of pauses -, so progress is read from what the run does: the server's hook trace grows with every
		// file the aggregator takes or finishes, the interim result in the outfile changes; a run in which neither
		// moves while everything is idle is hung)
		tracePath := filepath.Join(fl.Servers[0].Spec.Dir, "trace.jsonl")
		progress := func() int64 {
			b, _ := os.ReadFile(out)
			var sz int64
			if st, err := os.Stat(tracePath); err == nil {
				sz = st.Size()
			}
			return int64(crc32.ChecksumIEEE(b)) + sz<<20
		}
		res := vlib.RunCmd(vlib.Cmd{Path: r.Bin("dmap"), Args: args, Env: fl.ClientEnv(), Dir: fl.Home, Watchdog: 300 * time.Second, Busy: vlib.PidsBusy(fl.Servers[0].D.Pid()), OutProgress: progress})
		r.Eval(fmt.Sprintf("many-files|%d", nSmall+1))
		r.Count("runs_over_more_files_than_the_aggregator_queue_holds", 1)
		r.Max("many_files_run_longest_s", int(time.Since(start).Seconds()))
		got := 0
		if bb, err := os.ReadFile(out); err == nil {
			_, rows := mq.ParseCSV(string(bb))
			for _, row := range rows {
				if len(row) == 2 {
					c, _ := strconv.Atoi(row[1])
					got += c
				}
			}
		}
		os.Remove(out)
		os.Remove(out + ".query")
		os.RemoveAll(filepath.Join(fl.Servers[0].Spec.Dir, dir))
		detail := map[string]interface{}{"scenario": fmt.Sprintf("one session over %d files at once (queue of 100), one of them with 20 KB lines", nSmall+1), "lines_in_result": got, "want": want,
			"hung": res.Hung, "timed_out": res.TimedOut, "exit": res.Exit, "stdout": vlib.Trunc(string(res.Stdout), 600)}
		switch {
		case res.Hung:
			r.Violation("dmap-did-not-terminate", detail)
		case res.TimedOut:
			r.Inconclusive("dmap-watchdog")
		case got < want:
			r.Violation("lines-missing-from-result", detail)
		case got > want:
			r.Violation("lines-counted-more-than-once", detail)
		case res.Exit != 0:
			r.Violation("exit-status", detail)
		}
	}
}

func c06Absent(r *vlib.Run) {
	fl, err := startFleet(r, "c06abs", 3, map[string]interface{}{"MaxConcurrentCats": 2, "MaxConnections": 50,
		"Permissions": map[string]interface{}{"Default": []string{"^/.*", "!.*/denied/.*"}}}, nil, "error")
	if err != nil {
		r.Inconclusive("fleet-start")
		return
	}
	defer fl.Stop()
	type scen struct {
		name    string
		files   string
		has     []int // servers that have the (allowed) files
		perSrv  int   // files per server that has them
		useGlob bool
	}
	scens := []scen{
		{"one server lacks the file", "abs0/a.log", []int{0, 2}, 1, false},
		{"no server has the file", "abs1/a.log", nil, 1, false},
		{"glob matches nothing on one server", "abs2/*.log", []int{1, 2}, 3, true},
		{"file exists everywhere but may not be read on any", "denied/a.log", nil, 1, false},
		{"only one of three servers has files", "abs4/*.log", []int{1}, 2, true},
	}
	// a file whose reader fails (empty or garbage .gz) among healthy files
	scens = append(scens[:3:3], append([]scen{{"unreadable .gz files among healthy ones", "abs5/*", []int{0, 1, 2}, 2, true}}, scens[3:]...)...)
	if !r.Thorough() {
		scens = scens[:5]
	}
	vlib.Parallel(len(scens), len(scens), func(i int) {
		sc := scens[i]
		want := 0
		dir := filepath.Dir(sc.files)
		has := map[int]bool{}
		for _, s := range sc.has {
			has[s] = true
		}
		for s := range fl.Servers {
			if !has[s] && dir != "denied" {
				continue
			}
			for f := 0; f < sc.perSrv; f++ {
				var b bytes.Buffer
				for q := 1; q <= 40+7*f; q++ {
					b.WriteString(c06Line(fmt.Sprintf("s%df%d", s, f), 0, q) + "\n")
					if has[s] {
						want++
					}
				}
				name := filepath.Join(dir, "a.log")
				if sc.useGlob {
					name = filepath.Join(dir, fmt.Sprintf("p%d.log", f))
				}
				fl.WriteFile(s, name, b.Bytes())
			}
		}
		if dir == "abs5" {
			for s := range fl.Servers {
				fl.WriteFile(s, filepath.Join(dir, "broken-empty.gz"), nil)
				fl.WriteFile(s, filepath.Join(dir, "broken-garbage.gz"), []byte("this is not gzip data at all\nMAPREDUCE:CONS|fid=zz|g=g0|w=1\n"))
				if s == 1 {
					fl.WriteFile(s, filepath.Join(dir, "broken-garbage.zst"), []byte("neither is this zstd\n"))
				}
			}
		}
		out := filepath.Join(fl.Home, fmt.Sprintf("abs-%d.csv", i))
		os.Remove(out)
		query := "from CONS select fid,count($line) group by fid outfile " + out
		args := append(fl.ClientArgs(), "--logger", "stdout", "--logLevel", "error", "--noColor", "--files", sc.files, "--query", query)
		res := vlib.RunCmd(vlib.Cmd{Path: r.Bin("dmap"), Args: args, Env: fl.ClientEnv(), Dir: fl.Home, Watchdog: 180 * time.Second})
		r.Eval("absent|" + sc.name)
		r.Count("runs_with_servers_without_readable_files", 1)
		if res.TimedOut {
			r.Inconclusive("dmap-watchdog")
			return
		}
		got := 0
		if b, err := os.ReadFile(out); err == nil {
			_, rows := mq.ParseCSV(string(b))
			for _, row := range rows {
				if len(row) == 2 {
					c, _ := strconv.Atoi(row[1])
					got += c
				}
			}
		}
		os.Remove(out)
		os.Remove(out + ".query")
		r.Count("lines_accounted", got)
		detail := map[string]interface{}{"scenario": sc.name, "files": sc.files, "servers_with_files": sc.has, "lines_in_result": got, "want": want,
			"hung": res.Hung, "exit": res.Exit, "stdout": vlib.Trunc(string(res.Stdout), 600)}
		switch {
		case res.Hung:
			r.Violation("dmap-did-not-terminate", detail)
		case got < want:
			r.Violation("lines-missing-from-result", detail)
		case got > want:
			r.Violation("lines-counted-more-than-once", detail)
		case res.Exit != 0:
			r.Violation("exit-status", detail)
		}
	})
}

// c06Systematic: MaxConcurrentCats=1 and files ending in a long tail of lines
// of other tables: every file but the first waits for the read slot while its
// predecessor is read, and registers with the aggregator only after the
// predecessor was closed. The aggregator has to wait for the files of commands
// it knows of (this was the recorded finding c06.agg-early-exit until it was
// repaired); a short result is a violation unless the trace shows the command
// race (a read command received after the aggregator had finished).
func c06Systematic(r *vlib.Run) {
	env := []string{"VERIF_TRACE=trace.jsonl"}
	fl, err := startFleet(r, "c06sys", 1, map[string]interface{}{"MaxConcurrentCats": 1, "MaxConnections": 50}, env, "error")
	if err != nil {
		r.Inconclusive("fleet-start")
		return
	}
	defer fl.Stop()
	trace := filepath.Join(fl.Servers[0].Spec.Dir, "trace.jsonl")
	off := 0
	runs := r.N(8, 40)
	for run := 0; run < runs; run++ {
		sub := fmt.Sprintf("sys%d", run)
		var files []string
		total := 0
		nFiles := 3 + run%3
		for f := 0; f < nFiles; f++ {
			var b bytes.Buffer
			for q := 1; q <= 30; q++ {
				b.WriteString(c06Line(fmt.Sprintf("f%d", f), 0, q) + "\n")
				total++
			}
			for q := 0; q < 400; q++ {
				b.WriteString("INFO|1002-071209|1|m.go:1|8|14|7|0.21|471h|MAPREDUCE:OTHER|fid=zz|g=g9|w=1|seq=1\n")
			}
			rel := filepath.Join(sub, fmt.Sprintf("t%d.log", f))
			fl.WriteFile(0, rel, b.Bytes())
			files = append(files, rel)
		}
		out := filepath.Join(fl.Home, fmt.Sprintf("sys-%d.csv", run))
		query := "from CONS select fid,count($line) group by fid outfile " + out
		if run%4 == 2 {
			// a result with a single column: one value per group and message
			query = "from CONS select count($line) group by fid outfile " + out
		}
		fileArg := strings.Join(files, ",")
		glob := run%2 == 1
		if glob {
			fileArg = filepath.Join(sub, "t*.log") // one command, all files behind the limit
		}
		args := append(fl.ClientArgs(), "--logger", "stdout", "--logLevel", "error", "--noColor", "--files", fileArg, "--query", query)
		res := vlib.RunCmd(vlib.Cmd{Path: r.Bin("dmap"), Args: args, Env: fl.ClientEnv(), Dir: fl.Home, Watchdog: 120 * time.Second})
		time.Sleep(20 * time.Millisecond)
		got := 0
		if b, err := os.ReadFile(out); err == nil {
			_, rows := mq.ParseCSV(string(b))
			for _, row := range rows {
				if len(row) == 2 {
					c, _ := strconv.Atoi(row[1])
					got += c
				} else if len(row) == 1 {
					c, _ := strconv.Atoi(row[0])
					got += c
				}
			}
		}
		os.Remove(out)
		os.Remove(out + ".query")
		os.RemoveAll(filepath.Join(fl.Servers[0].Spec.Dir, sub))
		all := readTrace(trace)
		evs := all
		if off <= len(all) {
			evs = all[off:]
		}
		off = len(all)
		recvRead, cmdRace := 0, false
		wantCmds := nFiles
		if glob {
			wantCmds = 1
		}
		for _, e := range evs {
			switch e.Name {
			case "srv.cmd.recv":
				if len(e.KV) > 1 && (e.KV[1] == "cat" || e.KV[1] == "grep" || e.KV[1] == "tail") {
					recvRead++
				}
			case "mapr.agg.nomore":
				if recvRead < wantCmds {
					cmdRace = true
				}
			}
		}
		r.Eval(fmt.Sprintf("systematic|%d|%v", run, glob))
		r.Count("files_queued_behind_the_limit_runs", 1)
		r.Count("lines_accounted", got)
		if res.TimedOut {
			r.Inconclusive("dmap-watchdog")
			continue
		}
		if got == total && !res.Hung && res.Exit == 0 {
			continue
		}
		detail := map[string]interface{}{"scenario": "MaxConcurrentCats=1, files with a tail of foreign lines", "files": nFiles, "glob": glob,
			"lines_in_result": got, "want": total, "hung": res.Hung, "exit": res.Exit, "read_commands_received_before_aggregator_finished": recvRead}
		switch {
		case got > total:
			r.Violation("lines-counted-more-than-once", detail)
		case cmdRace && !glob && r.Known("c06.cmd-race", "multi-command session: aggregator and session finished before a later read command was received; that file's lines are missing (same root cause as c02.cmd-race)"):
			r.Count("cmd_race_runs", 1)
		case res.Hung:
			r.Violation("dmap-did-not-terminate", detail)
		default:
			r.Violation("files-queued-behind-the-limit-left-out", detail)
		}
	}
}

// ---- in-process aggregator tier

type c06AggCase struct {
	Phases    []int `json:"phases"` // lines fed before each report interval / before the end
	Groups    int   `json:"groups"`
	ConsumeUs int   `json:"consume_us"` // time the consumer needs per partial result
}

func c06AggTier(r *vlib.Run) {
	n := r.N(160, 4000)
	rng := r.Rng("agg")
	var cases []interface{}
	for i := 0; i < n; i++ {
		c := c06AggCase{Groups: []int{1, 5, 60, 400, 3000}[rng.Intn(5)], ConsumeUs: []int{0, 0, 50, 500, 2000}[rng.Intn(5)]}
		np := 1 + rng.Intn(4)
		for k := 0; k < np; k++ {
			c.Phases = append(c.Phases, []int{0, 1, 40, 400, 3000}[rng.Intn(5)])
		}
		if c.Groups >= 3000 && c.ConsumeUs >= 500 {
			c.ConsumeUs = 100
		}
		cases = append(cases, c)
	}
	results, crashes := r.RunBatches("c06agg", cases, 40, 14, nil, nil)
	for _, cr := range crashes {
		r.Violation("aggregator-crash", map[string]interface{}{"case": cases[cr.Any()], "stderr": vlib.Trunc(string(cr.Result.Stderr), 3000)})
	}
	for i, raw := range results {
		if raw == nil {
			continue
		}
		var res struct {
			Samples, Want, Messages int
			Err                     string
		}
		json.Unmarshal(raw, &res)
		r.Eval(fmt.Sprintf("agg|%v", cases[i]))
		r.Count("aggregator_partial_results_observed", res.Messages)
		if res.Samples != res.Want || res.Err != "" {
			r.Violation("partial-results-do-not-account-for-every-line", map[string]interface{}{"case": cases[i], "lines_accounted": res.Samples,
				"lines_fed": res.Want, "partial_results": res.Messages, "err": res.Err})
		}
	}
}

// ---- in-process merge tier

type c06MergeCase struct {
	N, K, Groups int
}

func c06Merge(r *vlib.Run) {
	n := r.N(300, 8000)
	rng := r.Rng("merge")
	var cases []interface{}
	for i := 0; i < n; i++ {
		cases = append(cases, c06MergeCase{N: []int{2, 4, 8, 32}[rng.Intn(4)], K: []int{1, 2, 10, 100}[rng.Intn(4)], Groups: 1 + rng.Intn(3)})
	}
	results, crashes := r.RunBatches("c06merge", cases, 50, 14, nil, nil)
	for _, cr := range crashes {
		r.Violation("merge-crash", map[string]interface{}{"case": cases[cr.Any()], "stderr": vlib.Trunc(string(cr.Result.Stderr), 3000)})
	}
	for i, raw := range results {
		if raw == nil {
			continue
		}
		var res struct {
			Total, Want int
			Err         string
		}
		json.Unmarshal(raw, &res)
		r.Eval(fmt.Sprintf("merge|%v", cases[i]))
		r.Count("merge_messages", res.Want)
		if res.Total != res.Want || res.Err != "" {
			r.Violation("concurrent-merge-lost-or-duplicated", map[string]interface{}{"case": cases[i], "total": res.Total, "want": res.Want, "err": res.Err})
		}
	}
}
