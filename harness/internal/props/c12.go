package props

import (
	"bytes"
	"encoding/base64"
	"fmt"
	"math/rand"
	"os"
	"path/filepath"
	"regexp"
	"strings"
	"sync"
	"time"

	"github.com/mimecast/dtail/verifharness/internal/vlib"
	"golang.org/x/crypto/ssh"
)

// C12 — the server applies exactly the filter and options the user specified.
// End to end through the real encoder (client) and decoder (server handler):
// dgrep serverless runs the complete path, a sample runs over SSH.

type c12Piece struct {
	re     string // regex source of the piece
	sample string // a string it matches
}

func c12Pieces() []c12Piece {
	lit := func(s string) c12Piece { return c12Piece{regexp.QuoteMeta(s), s} }
	return []c12Piece{
		lit("a b"), lit("  "), lit(" x"), lit("y "), lit(":"), lit(";"), lit(","), lit("%"), lit("="), lit("|"), lit("\""),
		lit("regex"), lit("base64%"), lit("default"), lit("invert"), lit("noop"), lit("regex:invert "), lit("é"), lit("日"),
		lit(" "), lit("\t"), lit("key=val"), lit("a:b:c"), lit("100%"), lit("x;y"), lit("p,q"), lit("--max"), lit("-"),
		lit("protocol 4.1 base64"), lit("cat:plain=true"), lit("'"), lit("\\"), lit("$HOME"), lit("*"), lit("?"), lit("#"),
		lit("   three"), lit("tab\there"), lit("%s%d"), lit("=="), lit(";;"), lit("::"), lit(",,"),
		{`\d+`, "42"}, {`[a-z]+`, "abc"}, {`(foo|bar)`, "foo"}, {`\s`, " "}, {`\|`, "|"}, {`.*`, "zz"}, {`[;:,]`, ";"},
		{`[[:space:]]+`, "  "}, {`(?:%|=)`, "%"}, {` +`, "   "}, {`\x20`, " "}, {`[^ ]`, "q"},
	}
}

type c12Case struct {
	Pattern string
	Invert  bool
	B, A, M int
	Plain   bool
	Quiet   bool
	SSH     bool
	Lines   []string
	FinalNL bool
	Danger  []string // which dangerous characters the pattern contains
}

// c12Long: a pattern of several kilobytes (an alternation of hundreds of tokens, as generated from a list of ids):
// the request is far longer than any buffer a command usually fits into, and every part of the pattern matters - lines
// that only the last alternatives select, lines that a pattern cut anywhere would select or miss.
func c12Long(rng *rand.Rand) *c12Case {
	c := &c12Case{Danger: []string{"|", "long-pattern"}}
	k := []int{150, 300, 420, 700, 1500, 5000}[rng.Intn(6)]
	toks := make([]string, k)
	for i := range toks {
		toks[i] = fmt.Sprintf("tok%05dend", i*7+rng.Intn(7))
	}
	c.Pattern = strings.Join(toks, "|")
	if rng.Intn(2) == 0 {
		c.Pattern = "id=(?:" + c.Pattern + ");"
	}
	wrap := func(t string) string {
		if strings.HasPrefix(c.Pattern, "id=") {
			return "id=" + t + ";"
		}
		return t
	}
	for i := 0; i < 60; i++ {
		j := rng.Intn(k)
		switch rng.Intn(6) {
		case 0:
			j = k - 1 - rng.Intn(3) // the very last alternatives
		case 1:
			j = rng.Intn(3)
		}
		c.Lines = append(c.Lines, fmt.Sprintf("line %d %s tail", i, wrap(toks[j])))
		c.Lines = append(c.Lines, fmt.Sprintf("line %d %s tail", i, wrap(toks[j][:len(toks[j])-1])))         // cut token
		c.Lines = append(c.Lines, fmt.Sprintf("line %d %s tail", i, wrap("tok"+fmt.Sprint(900000+i)+"end"))) // no alternative
	}
	c.Lines = append(c.Lines, "to", "tok", "", "unrelated line")
	rng.Shuffle(len(c.Lines), func(i, j int) { c.Lines[i], c.Lines[j] = c.Lines[j], c.Lines[i] })
	c.FinalNL = true
	c.Invert = rng.Intn(3) == 0
	c.B, c.A, c.M = []int{0, 0, 1}[rng.Intn(3)], []int{0, 0, 2}[rng.Intn(3)], []int{0, 0, 7}[rng.Intn(3)]
	c.Plain = rng.Intn(3) != 0
	c.SSH = rng.Intn(3) == 0
	return c
}

// c12Tall: a file of several hundred lines with few selected lines far apart, and context / max values of the same
// order: the options the user gave reach far beyond what the reader has buffered when a selected line is seen.
func c12Tall(rng *rand.Rand) *c12Case {
	pieces := c12Pieces()
	p := pieces[rng.Intn(43)] // the literal pieces
	c := &c12Case{Pattern: p.re, Danger: []string{"tall-file"}}
	n := 400 + rng.Intn(500)
	hits := map[int]bool{3 + rng.Intn(20): true, n/2 + rng.Intn(40): true, n - 1 - rng.Intn(30): true}
	for i := 0; i < n; i++ {
		if hits[i] {
			c.Lines = append(c.Lines, fmt.Sprintf("row %04d <%s> selected", i, p.sample))
		} else {
			c.Lines = append(c.Lines, fmt.Sprintf("row %04d nothing here", i))
		}
	}
	c.FinalNL = true
	v := func() int { return []int{0, 120, 150, 300, 1000000}[rng.Intn(5)] }
	c.B, c.A, c.M = []int{0, 0, 2, 130}[rng.Intn(4)], v(), []int{0, 1, 1, 2}[rng.Intn(4)]
	c.Plain = rng.Intn(3) != 0
	c.SSH = rng.Intn(3) == 0
	if _, err := regexp.Compile(c.Pattern); err != nil {
		return nil
	}
	return c
}

func c12Gen(rng *rand.Rand) *c12Case {
	pieces := c12Pieces()
	if rng.Intn(60) == 7 {
		return c12Long(rng)
	}
	if rng.Intn(60) == 9 {
		if c := c12Tall(rng); c != nil {
			return c
		}
	}
	for {
		c := &c12Case{}
		n := 1 + rng.Intn(4)
		var re, sample strings.Builder
		if rng.Intn(8) == 0 {
			re.WriteString("^")
		}
		for i := 0; i < n; i++ {
			p := pieces[rng.Intn(len(pieces))]
			re.WriteString(p.re)
			sample.WriteString(p.sample)
		}
		anchoredEnd := rng.Intn(8) == 0
		if anchoredEnd {
			re.WriteString("$")
		}
		c.Pattern = re.String()
		if rng.Intn(40) == 0 {
			// patterns next to the ones the implementation treats as "everything"
			k := rng.Intn(8)
			c.Pattern = []string{".+", "..", ".?", ".*.", "(.*)", ".*$", "^.*", ".+$"}[k]
			sample.Reset()
			sample.WriteString([]string{"zz", "zz", "z", "z", "zz", "zz", "zz", "zz"}[k])
		}
		if c.Pattern == "." || c.Pattern == ".*" || c.Pattern == "" {
			continue
		}
		rx, err := regexp.Compile(c.Pattern)
		if err != nil {
			continue
		}
		pos := sample.String()
		if !rx.MatchString(pos) {
			continue
		}
		for _, d := range []string{" ", "  ", ":", ";", ",", "%", "=", "|", "\"", "\t", " ", "regex", "base64%", "invert", "noop", "default", "é", "日", "'", "\\", "*", "$"} {
			if strings.Contains(c.Pattern, d) {
				c.Danger = append(c.Danger, d)
			}
		}
		if strings.HasPrefix(c.Pattern, " ") {
			c.Danger = append(c.Danger, "leading-blank")
		}
		if strings.HasSuffix(c.Pattern, " ") {
			c.Danger = append(c.Danger, "trailing-blank")
		}
		// target lines: positives, near misses
		add := func(s string) {
			s = strings.ReplaceAll(s, "\n", "")
			if strings.HasPrefix(s, ".") {
				s = "_" + s
			}
			c.Lines = append(c.Lines, s)
		}
		add(pos)
		add("prefix " + pos + " suffix")
		add("zz" + pos)
		add(pos + "zz")
		add(strings.Join(strings.Fields(pos), " ")) // whitespace collapsed
		add(strings.TrimSpace(pos))
		add(strings.ToUpper(pos))
		for _, d := range []string{" ", ":", ";", ",", "%", "=", "|", "\""} {
			if i := strings.Index(pos, d); i >= 0 {
				add(pos[:i])
				add(pos[i+len(d):])
				add(strings.Replace(pos, d, "", 1))
			}
		}
		if len(pos) > 1 {
			k := rng.Intn(len(pos))
			add(pos[:k] + pos[k+1:])
			add(pos[:k] + "#" + pos[k+1:])
		}
		add("regex:invert " + pos)
		add("unrelated line")
		add("")
		add(c.Pattern) // the pattern text itself
		rng.Shuffle(len(c.Lines), func(i, j int) { c.Lines[i], c.Lines[j] = c.Lines[j], c.Lines[i] })
		// repeat a few times so that context options have something to do
		base := append([]string(nil), c.Lines...)
		for k := 0; k < rng.Intn(3); k++ {
			c.Lines = append(c.Lines, base...)
		}
		c.FinalNL = rng.Intn(4) != 0
		if c.Lines[len(c.Lines)-1] == "" {
			c.FinalNL = true
		}
		c.Invert = rng.Intn(3) == 0
		v := func() int { return []int{0, 0, 0, 1, 2, 7, 1000000}[rng.Intn(7)] }
		c.B, c.A, c.M = v(), v(), v()
		c.Plain = rng.Intn(3) != 0
		c.Quiet = rng.Intn(4) == 0
		c.SSH = rng.Intn(10) == 0
		// the pattern must be passable as one argv element
		if strings.ContainsRune(c.Pattern, 0) || bytes.IndexByte([]byte(c.Pattern), 0xAC) >= 0 {
			continue
		}
		return c
	}
}

func init() {
	Drivers["C12"] = c12
}

func c12(r *vlib.Run) int {
	r.Rule("patterns assembled from pieces containing the characters the wire format itself uses (blank runs, leading/trailing " +
		"blanks, ':', ';', ',', '%', '=', '|', '\"', tab, NBSP, non-ASCII, the words regex/base64%/invert/noop/default) x invert x " +
		"before/after/max in {0,1,2,7,10^6} x {--plain, REMOTE records} x --quiet; target file = the pattern's own positive " +
		"example plus near misses (collapsed/trimmed blanks, cut at each delimiter, one byte changed). Oracle: output == lines " +
		"selected by compiling the user's pattern with Go regexp in the harness + the C03 context model. distinct = distinct " +
		"(pattern, invert, b, a, m, mode, transport); non-trivial: all (every pattern carries a dangerous character or class).")
	r.Assume("byte 0xAC and NUL are not part of generated patterns (0xAC: known finding c01.delim-0xac; NUL cannot be passed in argv)")
	n := r.N(5000, 80000)
	rng := r.Rng("cases")
	fl, err := startFleet(r, "c12", 1, map[string]interface{}{"MaxConcurrentCats": 16, "MaxConnections": 64}, nil, "error")
	if err != nil {
		r.Inconclusive("fleet-start")
	}
	defer fl.Stop()
	cases := make([]*c12Case, n)
	for i := range cases {
		cases[i] = c12Gen(rng)
		if fl == nil {
			cases[i].SSH = false
		}
	}
	dir := r.Dir("c12files")
	vlib.Parallel(n, 12, func(i int) {
		c := cases[i]
		body := strings.Join(c.Lines, "\n")
		if c.FinalNL {
			body += "\n"
		}
		path := filepath.Join(dir, fmt.Sprintf("t%d.log", i))
		os.WriteFile(path, []byte(body), 0644)
		defer os.Remove(path)
		args := []string{"--files", path, "--regex", c.Pattern}
		if c.Plain {
			args = append(args, "--plain")
		} else {
			args = append(args, "--noColor")
		}
		if c.Quiet {
			args = append(args, "--quiet")
		}
		if c.Invert {
			args = append(args, "--invert")
		}
		if c.B > 0 {
			args = append(args, "--before", fmt.Sprint(c.B))
		}
		if c.A > 0 {
			args = append(args, "--after", fmt.Sprint(c.A))
		}
		if c.M > 0 {
			args = append(args, "--max", fmt.Sprint(c.M))
		}
		var res *vlib.Result
		if c.SSH {
			res = runFleet(r, fl, "dgrep", args, nil)
		} else {
			res = runServerless(r, "dgrep", args, "", nil)
		}
		r.Eval(fmt.Sprintf("%s|%v|%d|%d|%d|%v|%v|%v", c.Pattern, c.Invert, c.B, c.A, c.M, c.Plain, c.Quiet, c.SSH))
		for _, d := range c.Danger {
			r.SetAdd("danger", d)
		}
		if c.SSH {
			r.Count("runs_ssh", 1)
		}
		if i < 4 {
			r.Sample(map[string]interface{}{"pattern": c.Pattern, "invert": c.Invert, "before": c.B, "after": c.A, "max": c.M,
				"plain": c.Plain, "quiet": c.Quiet, "ssh": c.SSH, "lines": clipStrings(c.Lines, 6)})
		}
		if res.TimedOut {
			r.Inconclusive("dgrep-watchdog")
			return
		}
		sel, _ := selection(c.Lines, c.Pattern, c.Invert)
		want := grepModel(sel, c.B, c.A, c.M)
		var sb strings.Builder
		for _, w := range want {
			sb.WriteString(c.Lines[w])
			if !(w == len(c.Lines)-1 && !c.FinalNL) {
				sb.WriteString("\n")
			}
		}
		got := res.Stdout
		why := ""
		if !c.Plain {
			// mode check: every record must carry the REMOTE prefix
			g, w := stripRemoteLoose(res.Stdout)
			got, why = g, w
		} else if bytes.HasPrefix(res.Stdout, []byte("REMOTE|")) && !strings.HasPrefix(sb.String(), "REMOTE|") {
			why = "plain mode output carries REMOTE| records"
		}
		if res.Hung || res.Exit != 0 || why != "" || string(got) != sb.String() {
			if len(want) > 0 {
				r.Count("violating_cases_with_selected_lines", 1)
			}
			r.Violation("selection-differs", map[string]interface{}{"pattern": c.Pattern, "pattern_hex": fmt.Sprintf("%x", c.Pattern),
				"invert": c.Invert, "before": c.B, "after": c.A, "max": c.M, "plain": c.Plain, "quiet": c.Quiet, "ssh": c.SSH,
				"final_nl": c.FinalNL, "lines": clipStrings(c.Lines, 80), "why": why, "exit": res.Exit, "hung": res.Hung,
				"got": vlib.Trunc(string(got), 1500), "want": vlib.Trunc(sb.String(), 1500), "stderr": vlib.Trunc(string(res.Stderr), 600)})
		}
		if len(want) > 0 {
			r.Count("runs_with_selected_lines", 1)
		}
	})
	if fl != nil {
		c12Overlap(r, fl)
	}
	c12Multi(r, fl)
	if fl != nil {
		// own server with the hook trace on (attribution of the recorded command race)
		if cfl, err := startFleet(r, "c12ch", 1, map[string]interface{}{"MaxConcurrentCats": 16, "MaxConnections": 64}, []string{"VERIF_TRACE=trace.jsonl"}, "error"); err == nil {
			c12Chunked(r, cfl)
			cfl.Stop()
		} else {
			r.Inconclusive("fleet-start")
		}
	}
	return n / 2
}

// c12Chunked: the request of a real client, delivered to the server the way a
// network may deliver it - cut into pieces at arbitrary byte positions. The
// bytes are captured from a real dgrep (talking to a recording SSH server),
// then replayed over a raw SSH session to the real server in 2-5 pieces. The
// session asks for a large file and a small one (two commands, the large one
// keeps the session busy while the rest of the bytes arrives); the output must
// be the selection of both files, whatever the cut positions.
func c12Chunked(r *vlib.Run, fl *fleet) {
	n := r.N(24, 200)
	rng := r.Rng("chunked")
	hk := vlib.HostKey()
	hkFile := r.Dir("c12chunked") + "/hostkey.pem"
	os.WriteFile(hkFile, hk.PEM, 0600)
	seeds := make([]int64, n)
	for i := range seeds {
		seeds[i] = rng.Int63()
	}
	srvDir := fl.Servers[0].Spec.Dir
	vlib.Parallel(n, 6, func(i int) {
		crng := rand.New(rand.NewSource(seeds[i]))
		c := c12Gen(crng)
		c.Plain, c.FinalNL = true, true
		// big file: the small file's lines many times over
		var big []string
		for len(big) < 30000 {
			big = append(big, c.Lines...)
		}
		p1 := filepath.Join(srvDir, fmt.Sprintf("chunked%d-big.log", i))
		p2 := filepath.Join(srvDir, fmt.Sprintf("chunked%d-small.log", i))
		os.WriteFile(p1, []byte(strings.Join(big, "\n")+"\n"), 0644)
		os.WriteFile(p2, []byte(strings.Join(c.Lines, "\n")+"\n"), 0644)
		defer os.Remove(p1)
		defer os.Remove(p2)
		// 1. capture what the real client sends
		port := vlib.FreePort()
		f, err := startFakeSSHD(r, fmt.Sprintf("c12ch-%d", i), []int{port}, []string{hkFile}, "", 400)
		if err != nil {
			r.Inconclusive("fakesshd")
			return
		}
		args := []string{"--cfg", "none", "--key", fl.KeyFile, "--user", fl.User, "--servers", fmt.Sprintf("127.0.0.1:%d", port), "--trustAllHosts",
			"--logger", "stdout", "--logLevel", "error", "--plain", "--files", p1 + "," + p2, "--regex", c.Pattern}
		if c.Invert {
			args = append(args, "--invert")
		}
		if c.B > 0 {
			args = append(args, "--before", fmt.Sprint(c.B))
		}
		if c.A > 0 {
			args = append(args, "--after", fmt.Sprint(c.A))
		}
		if c.M > 0 {
			args = append(args, "--max", fmt.Sprint(c.M))
		}
		home, _ := r.ClientHome(fmt.Sprintf("c12ch-%d", i), fl.Key)
		vlib.RunCmd(vlib.Cmd{Path: r.Bin("dgrep"), Args: args, Env: []string{"HOME=" + home}, Dir: home, Watchdog: 60 * time.Second})
		os.RemoveAll(home)
		var stream []byte
		for _, e := range f.Events() {
			if e.Ev == "data" && e.Conn == 0 {
				b, _ := base64.StdEncoding.DecodeString(e.Data)
				stream = append(stream, b...)
			}
		}
		f.Stop()
		if bytes.Count(stream, []byte(";")) < 2 {
			r.Inconclusive("client-request-not-captured")
			return
		}
		// 2. replay in pieces; at least one cut inside the last command
		lastStart := bytes.LastIndexByte(stream[:len(stream)-1], ';') + 1
		cuts := map[int]bool{lastStart + 1 + crng.Intn(len(stream)-lastStart-1): true}
		for k := crng.Intn(4); k > 0; k-- {
			cuts[1+crng.Intn(len(stream)-1)] = true
		}
		client, _, out, in, err := trySession(fl.Servers[0].Addr(), fl.User, []ssh.AuthMethod{ssh.PublicKeys(fl.Key.Signer)}, "")
		if err != nil {
			r.Inconclusive("raw-session")
			return
		}
		defer client.Close()
		got := make(chan []byte, 1)
		go func() {
			var buf bytes.Buffer
			b := make([]byte, 65536)
			deadline := time.Now().Add(60 * time.Second)
			for time.Now().Before(deadline) {
				n, err := out.Read(b)
				buf.Write(b[:n])
				if err != nil || bytes.Contains(buf.Bytes(), []byte(".syn close connection")) {
					break
				}
			}
			got <- buf.Bytes()
		}()
		prev := 0
		pieces := 0
		for pos := 1; pos <= len(stream); pos++ {
			if cuts[pos] || pos == len(stream) {
				in.Write(stream[prev:pos])
				prev = pos
				pieces++
				time.Sleep(2 * time.Millisecond)
			}
		}
		var raw []byte
		select {
		case raw = <-got:
		case <-time.After(70 * time.Second):
			r.Inconclusive("raw-session-read")
			return
		}
		in.Write([]byte(encodeCommand(".ack close connection")))
		r.Eval(fmt.Sprintf("chunked|%s|%v|%d|%d|%d|%d", c.Pattern, c.Invert, c.B, c.A, c.M, pieces))
		r.Count("requests_replayed_in_pieces", 1)
		r.Count("request_pieces_sent", pieces)
		gotCount := map[string]int{}
		nGot := 0
		for _, m := range bytes.Split(raw, []byte{0xAC}) {
			if len(m) == 0 || m[0] == '.' {
				continue
			}
			gotCount[strings.TrimSuffix(string(m), "\n")]++
			nGot++
		}
		wantCount := map[string]int{}
		nWant := 0
		for _, lines := range [][]string{big, c.Lines} {
			sel, _ := selection(lines, c.Pattern, c.Invert)
			for _, w := range grepModel(sel, c.B, c.A, c.M) {
				wantCount[lines[w]]++
				nWant++
			}
		}
		same := nGot == nWant
		for l, cnt := range wantCount {
			if gotCount[l] != cnt {
				same = false
			}
		}
		if !same {
			// the recorded command race (c02.cmd-race): the session began to shut
			// down before its second command was received
			hid := ""
			evs := readTrace(filepath.Join(srvDir, "trace.jsonl"))
			for _, e := range evs {
				if e.Name == "srv.lim.acq" && len(e.KV) > 2 && e.KV[2] == p1 {
					hid = e.KV[0]
				}
			}
			if hid != "" && cmdRaceInTrace(evs, hid, 2) {
				r.Count("chunked_sessions_cmd_race_not_judged", 1)
				return
			}
			var extra []string
			for l, cnt := range gotCount {
				if wantCount[l] != cnt && len(extra) < 6 {
					extra = append(extra, fmt.Sprintf("%q x%d (want x%d)", vlib.Trunc(l, 120), cnt, wantCount[l]))
				}
			}
			r.Violation("selection-differs-when-the-request-arrives-in-pieces", map[string]interface{}{"pattern": c.Pattern, "invert": c.Invert,
				"before": c.B, "after": c.A, "max": c.M, "request_bytes": len(stream), "pieces": pieces, "cut_positions": fmt.Sprint(cuts),
				"request": vlib.Trunc(string(stream), 600), "got_lines": nGot, "want_lines": nWant, "differing": extra})
		}
	})
}

// c12Multi: one session with several read commands (--files a,b): the options
// the client encoded apply to every command of the session. Both files have
// the same content, so the output must be the selected lines twice (in any
// interleaving of whole lines). Sessions run serverless with the hook trace on:
// a session whose trace shows the shutdown beginning before the second command
// was received is the recorded finding c02.cmd-race and is not judged here.
func c12Multi(r *vlib.Run, fl *fleet) {
	n := r.N(400, 6000)
	rng := r.Rng("multi")
	cases := make([]*c12Case, n)
	for i := range cases {
		c := c12Gen(rng)
		for c.B == 0 && c.A == 0 && c.M == 0 {
			c = c12Gen(rng)
		}
		c.Plain, c.FinalNL, c.SSH = true, true, false
		cases[i] = c
	}
	dir := r.Dir("c12multi")
	vlib.Parallel(n, 12, func(i int) {
		c := cases[i]
		body := strings.Join(c.Lines, "\n") + "\n"
		p1 := filepath.Join(dir, fmt.Sprintf("m%da.log", i))
		p2 := filepath.Join(dir, fmt.Sprintf("m%db.log", i))
		os.WriteFile(p1, []byte(body), 0644)
		os.WriteFile(p2, []byte(body), 0644)
		defer os.Remove(p1)
		defer os.Remove(p2)
		args := []string{"--files", p1 + "," + p2, "--regex", c.Pattern, "--plain"}
		if c.Invert {
			args = append(args, "--invert")
		}
		if c.B > 0 {
			args = append(args, "--before", fmt.Sprint(c.B))
		}
		if c.A > 0 {
			args = append(args, "--after", fmt.Sprint(c.A))
		}
		if c.M > 0 {
			args = append(args, "--max", fmt.Sprint(c.M))
		}
		traceFile := filepath.Join(dir, fmt.Sprintf("m%d.trace", i))
		defer os.Remove(traceFile)
		res := runServerless(r, "dgrep", args, "", []string{"VERIF_TRACE=" + traceFile})
		if res.TimedOut {
			r.Inconclusive("dgrep-watchdog")
			return
		}
		cmdRace := cmdRaceInTrace(readTrace(traceFile), "", 2)
		r.Eval(fmt.Sprintf("multi|%s|%v|%d|%d|%d|%v", c.Pattern, c.Invert, c.B, c.A, c.M, c.SSH))
		r.Count("multi_command_sessions", 1)
		sel, _ := selection(c.Lines, c.Pattern, c.Invert)
		want := grepModel(sel, c.B, c.A, c.M)
		wantCount := map[string]int{}
		for _, w := range want {
			wantCount[c.Lines[w]]++
		}
		gotCount := map[string]int{}
		out := strings.TrimSuffix(string(res.Stdout), "\n")
		nGot := 0
		if out != "" || len(res.Stdout) > 0 {
			for _, l := range strings.Split(out, "\n") {
				gotCount[l]++
				nGot++
			}
		}
		factor := func(k int) bool {
			if nGot != k*len(want) {
				return false
			}
			for l, cnt := range wantCount {
				if gotCount[l] != k*cnt {
					return false
				}
			}
			return true
		}
		switch {
		case len(want) == 0 && nGot == 0:
			r.Count("multi_sessions_nothing_selected", 1)
		case factor(2):
			r.Count("multi_sessions_both_files_judged", 1)
		case cmdRace && !res.Hung:
			r.Count("multi_sessions_cmd_race_not_judged", 1)
		default:
			r.Violation("selection-differs-in-multi-command-session", map[string]interface{}{"pattern": c.Pattern, "invert": c.Invert,
				"before": c.B, "after": c.A, "max": c.M, "ssh": c.SSH, "lines": clipStrings(c.Lines, 60), "want_per_file": len(want),
				"got_lines": nGot, "got": vlib.Trunc(string(res.Stdout), 1500), "exit": res.Exit, "hung": res.Hung})
		}
	})
}

// c12Overlap: two sessions on one server use the byte-identical pattern with
// opposite invert flags (and different context options) at the same time; the
// server must keep applying to each request the flags it decoded for it.
func c12Overlap(r *vlib.Run, fl *fleet) {
	n := r.N(16, 300)
	rng := r.Rng("overlap")
	dir := r.Dir("c12overlap")
	vlib.Parallel(n, 4, func(i int) {
		mu.Lock()
		c := c12Gen(rng)
		mu.Unlock()
		// a long file so that the two reads overlap
		base := append([]string(nil), c.Lines...)
		var lines []string
		for len(lines) < 60000 {
			lines = append(lines, base...)
		}
		c.Lines, c.FinalNL = lines, true
		path := filepath.Join(dir, fmt.Sprintf("o%d.log", i))
		os.WriteFile(path, []byte(strings.Join(lines, "\n")+"\n"), 0644)
		defer os.Remove(path)
		type side struct {
			invert bool
			max    int
			res    *vlib.Result
		}
		sides := []*side{{invert: false, max: 0}, {invert: true, max: 0}, {invert: false, max: 7}}
		var wg sync.WaitGroup
		for k, sd := range sides {
			wg.Add(1)
			go func(k int, sd *side) {
				defer wg.Done()
				time.Sleep(time.Duration(k*15) * time.Millisecond)
				args := []string{"--plain", "--files", path, "--regex", c.Pattern}
				if sd.invert {
					args = append(args, "--invert")
				}
				if sd.max > 0 {
					args = append(args, "--max", fmt.Sprint(sd.max))
				}
				sd.res = runFleet(r, fl, "dgrep", args, nil)
			}(k, sd)
		}
		wg.Wait()
		r.Eval(fmt.Sprintf("overlap|%s", c.Pattern))
		r.Count("overlapping_session_groups", 1)
		for _, sd := range sides {
			if sd.res.TimedOut {
				r.Inconclusive("dgrep-watchdog")
				continue
			}
			sel, _ := selection(c.Lines, c.Pattern, sd.invert)
			want := grepModel(sel, 0, 0, sd.max)
			var sb strings.Builder
			for _, w := range want {
				sb.WriteString(c.Lines[w] + "\n")
			}
			if sd.res.Hung || sd.res.Exit != 0 || string(sd.res.Stdout) != sb.String() {
				fd := firstDiff(sd.res.Stdout, []byte(sb.String()))
				r.Violation("selection-differs-with-overlapping-sessions", map[string]interface{}{"pattern": c.Pattern, "invert": sd.invert, "max": sd.max,
					"other_sessions": "same pattern with the opposite invert flag / other options, at the same time on the same server",
					"got_bytes":      len(sd.res.Stdout), "want_bytes": sb.Len(), "got_around": around(sd.res.Stdout, fd), "want_around": around([]byte(sb.String()), fd),
					"exit": sd.res.Exit, "hung": sd.res.Hung})
			}
		}
	})
}

// stripRemoteLoose removes the REMOTE|host|perc|count|id| prefix of every
// output line; a line without it is reported.
func stripRemoteLoose(out []byte) ([]byte, string) {
	var b bytes.Buffer
	rest := out
	for len(rest) > 0 {
		if !bytes.HasPrefix(rest, []byte("REMOTE|")) {
			return out, fmt.Sprintf("output record does not start with REMOTE|: %q", vlib.Trunc(string(rest), 80))
		}
		pos := 0
		for k := 0; k < 5; k++ {
			j := bytes.IndexByte(rest[pos:], '|')
			if j < 0 {
				return out, "short REMOTE record"
			}
			pos += j + 1
		}
		end := len(rest)
		if j := bytes.IndexByte(rest[pos:], '\n'); j >= 0 {
			end = pos + j + 1
		}
		b.Write(rest[pos:end])
		rest = rest[end:]
	}
	return b.Bytes(), ""
}
