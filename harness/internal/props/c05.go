package props

import (
	"encoding/json"
	"fmt"
	"math"
	"math/rand"
	"os"
	"path/filepath"
	"strconv"
	"strings"
	"time"

	"github.com/mimecast/dtail/verifharness/internal/mq"
	"github.com/mimecast/dtail/verifharness/internal/vlib"
)

// C05 — distributed mapreduce result equals central evaluation of the query.

type c05Case struct {
	Central pipeCase `json:"central"`
	Parted  pipeCase `json:"parted"`
}

type c05Result struct {
	Central pipeResult `json:"central"`
	Parted  pipeResult `json:"parted"`
}

// c05WireCase: see c05_wire_worker.go. Scales: one client-side merge round per entry, every message re-issued with
// samples, counts and sums multiplied by it.
type c05WireCase struct {
	Pipe   pipeCase `json:"pipe"`
	Scales []int    `json:"scales"`
}

type c05WireResult struct {
	CSV      string   `json:"csv"`
	Messages int      `json:"messages"`
	Samples  []string `json:"samples,omitempty"`
	Err      string   `json:"err,omitempty"`
}

type c05Meta struct {
	Q      *mq.Query
	T      *mq.Table
	Text   string
	Lines  []mq.Line // with server assignment of the partitioned run
	Keyed  int       // number of leading key columns (0 = not keyed)
	Shape  string
	NCuts  int
	NFiles int
	NSrv   int
}

func init() {
	Drivers["C05"] = c05
}

// c05Gen builds one case: table, query, central and partitioned layout.
func c05Gen(rng *rand.Rand, scratch string, i int, maxLines int) (c05Case, *c05Meta) {
	format := []string{"default", "default", "generickv", "generickv", "csv"}[rng.Intn(5)]
	t := mq.GenTable(rng, format, maxLines)
	if rng.Intn(6) == 0 && format != "csv" {
		t.GroupFields = append(t.GroupFields, "$hostname")
	}
	q := mq.GenQuery(rng, t)
	m := &c05Meta{Q: q, T: t}
	// keyed variant: group-by fields lead the select list, so that rows can
	// be matched by key between runs.
	if rng.Intn(10) < 7 {
		gb := q.EffectiveGroupBy()
		ok := true
		for _, g := range gb {
			if strings.ContainsAny(g, "()") || g == "$line" {
				ok = false
			}
		}
		if ok {
			var sel []mq.Sel
			seen := map[string]bool{}
			for _, g := range gb {
				s := mq.Sel{Field: g}
				if isKw(g) {
					s.Backquoted = true
				}
				sel = append(sel, s)
				seen[s.Storage()] = true
			}
			for _, s := range q.Sel {
				if !seen[s.Storage()] {
					sel = append(sel, s)
					seen[s.Storage()] = true
				}
			}
			q.GroupBy = append([]string(nil), gb...)
			q.Sel = sel
			m.Keyed = len(gb)
		}
	}
	out := filepath.Join(scratch, fmt.Sprintf("c%d.csv", i))
	q.Outfile = &mq.Outfile{Path: out, Quoted: true}
	text := q.Render(&mq.Style{Rng: rng, Plain: rng.Intn(2) == 0})
	m.Text = text

	lines := tableFilter(t.Format, q.Table, t.Lines)
	// partition: servers
	nSrv := 1 + rng.Intn(4)
	hosts := []string{"alpha", "beta", "gamma", "delta"}[:nSrv]
	assign := make([]int, len(lines))
	switch rng.Intn(3) {
	case 0: // contiguous chunks
		for k := range lines {
			assign[k] = k * nSrv / (len(lines) + 1)
		}
	case 1: // random
		for k := range lines {
			assign[k] = rng.Intn(nSrv)
		}
	default: // skewed: most lines on one server
		for k := range lines {
			if rng.Intn(5) == 0 {
				assign[k] = rng.Intn(nSrv)
			}
		}
	}
	perSrv := make([][]string, nSrv)
	for k, l := range lines {
		perSrv[assign[k]] = append(perSrv[assign[k]], l)
		m.Lines = append(m.Lines, mq.Line{Text: l, Server: hosts[assign[k]]})
	}
	header := strings.Join(t.CSVHeader, ",")
	withCuts := rng.Intn(10) < 4
	parted := pipeCase{Query: text, Outfile: out}
	for s := 0; s < nSrv; s++ {
		ps := pipeServer{Host: hosts[s]}
		nFiles := 1
		if format != "csv" {
			nFiles = 1 + rng.Intn(3)
		}
		files := make([][]string, nFiles)
		for _, l := range perSrv[s] {
			f := rng.Intn(nFiles)
			files[f] = append(files[f], l)
		}
		for _, fl := range files {
			pf := pipeFile{Lines: fl}
			if format == "csv" {
				pf.Lines = append([]string{header}, fl...)
			}
			if withCuts && len(pf.Lines) > 1 {
				nc := rng.Intn(3)
				seen := map[int]bool{}
				for c := 0; c < nc; c++ {
					p := 1 + rng.Intn(len(pf.Lines))
					if !seen[p] {
						seen[p] = true
					}
				}
				for p := 1; p <= len(pf.Lines); p++ {
					if seen[p] {
						pf.Cuts = append(pf.Cuts, p)
						m.NCuts++
					}
				}
			}
			ps.Files = append(ps.Files, pf)
			m.NFiles++
		}
		parted.Servers = append(parted.Servers, ps)
	}
	m.NSrv = nSrv
	// central: one partition. If the query looks at the host name, lines stay
	// on their server (one file, no cuts); otherwise everything is on one server.
	central := pipeCase{Query: text, Outfile: out + ".central"}
	centralText := strings.Replace(text, out, out+".central", 1)
	central.Query = centralText
	if q.UsesHostname() {
		for s := 0; s < nSrv; s++ {
			pf := pipeFile{Lines: perSrv[s]}
			if format == "csv" {
				pf.Lines = append([]string{header}, perSrv[s]...)
			}
			central.Servers = append(central.Servers, pipeServer{Host: hosts[s], Files: []pipeFile{pf}})
		}
	} else {
		pf := pipeFile{Lines: lines}
		if format == "csv" {
			pf.Lines = append([]string{header}, lines...)
		}
		central.Servers = []pipeServer{{Host: hosts[0], Files: []pipeFile{pf}}}
		for k := range m.Lines {
			_ = k
		}
	}
	m.Shape = fmt.Sprintf("%s/srv%d/files%d/cuts%v/keyed%v/order%v/limit%v", format, nSrv, m.NFiles, m.NCuts > 0, m.Keyed > 0, q.OrderBy != "", q.Limit != nil)
	return c05Case{Central: central, Parted: parted}, m
}

func isKw(s string) bool {
	switch strings.ToLower(s) {
	case "select", "from", "where", "set", "group", "rorder", "order", "interval", "limit", "outfile", "logformat":
		return true
	}
	return false
}

func c05(r *vlib.Run) int {
	r.Rule("seeded generator: table (default/generickv/csv format, few group values, numeric columns with negatives, " +
		"decimals, exponents, zeros and junk, missing fields) x valid query (all aggregations, where, set, group by, " +
		"(r)order, limit) x partition (1-4 servers x 1-3 files x forced partial transmissions). Both the partitioned " +
		"and the single-partition run of the REAL aggregation code are compared with an independent reference " +
		"evaluator, and with each other row by row when the group key is selected. distinct = distinct (query, table " +
		"hash, partition shape); non-trivial = at least 2 input lines in at least 2 partitions.")
	r.Assume("avg over groups containing lines without a numeric value is only compared between runs, not with the reference (semantics not documented)")
	r.Assume("last/len may be any of the group's values; sums compared with tolerance 2e-6 abs + 1e-9 rel")
	r.Assume("csv format: one file per server (the header is per file)")
	n := r.N(5000, 300000)
	rng := r.Rng("pipe")
	scratch := r.Dir("c05out")
	cases := make([]interface{}, n)
	metas := make([]*c05Meta, n)
	for i := 0; i < n; i++ {
		maxLines := 40
		if i%10 == 0 {
			maxLines = 400
		}
		c, m := c05Gen(rng, scratch, i, maxLines)
		cases[i], metas[i] = c, m
	}
	start := time.Now()
	results, crashes := r.RunBatches("c05", cases, 250, 14, nil, nil)
	r.Extra("worker_wall_s", time.Since(start).Seconds())
	for _, cr := range crashes {
		r.Violation("pipeline-crash", map[string]interface{}{"query": metas[cr.Any()].Text, "table": metas[cr.Any()].T,
			"stderr": vlib.Trunc(string(cr.Result.Stderr), 3000)})
	}
	for i, raw := range results {
		if raw == nil {
			continue
		}
		var res c05Result
		json.Unmarshal(raw, &res)
		c05Check(r, i, metas[i], &res, cases[i].(c05Case))
	}
	os.RemoveAll(scratch)
	c05Wire(r)
	c05SlowClient(r)
	c05E2E(r)
	return n / 2
}

// c05SlowClient: a partial transmission of hundreds of groups is still on its way to a client that takes its time per
// message when the input ends (a forced transmission one line before the end of the only file): the final result must
// still hold every group.
func c05SlowClient(r *vlib.Run) {
	rng := r.Rng("slowclient")
	n := r.N(24, 200)
	scratch := r.Dir("c05slow")
	var cases []interface{}
	var sizes []int
	for i := 0; i < n; i++ {
		groups := 300 + rng.Intn(900)
		var lines []string
		for g := 0; g < groups; g++ {
			lines = append(lines, fmt.Sprintf("id=k%05d|v=%d", g, 1+g%7))
		}
		out := filepath.Join(scratch, fmt.Sprintf("s%d.csv", i))
		pc := pipeCase{Query: "select id,count($line),sum(v) group by id logformat generickv outfile " + out, Outfile: out, SlowClientUs: 100 + rng.Intn(400),
			Servers: []pipeServer{{Host: "slow", Files: []pipeFile{{Lines: lines, Cuts: []int{groups - 1 - rng.Intn(3)}}}}}}
		cases = append(cases, c05Case{Central: pc, Parted: pipeCase{Query: pc.Query, Outfile: out, Servers: []pipeServer{{Host: "slow", Files: []pipeFile{{Lines: lines[:1]}}}}}})
		sizes = append(sizes, groups)
	}
	results, crashes := r.RunBatchesOpts("c05", cases, vlib.BatchOpts{Size: 12, Workers: 8})
	for range crashes {
		r.Violation("pipeline-crash", map[string]interface{}{"tier": "slow client"})
	}
	for i, raw := range results {
		if raw == nil {
			continue
		}
		var res c05Result
		json.Unmarshal(raw, &res)
		r.Eval(fmt.Sprintf("slow-client|%d", sizes[i]))
		r.Count("runs_with_a_transmission_in_flight_at_the_end_of_input", 1)
		_, rows := mq.ParseCSV(res.Central.CSV)
		bad := 0
		for _, row := range rows {
			if len(row) != 3 || row[1] != "1" {
				bad++
			}
		}
		if res.Central.Err != "" || len(rows) != sizes[i] || bad > 0 {
			r.Violation("partitioned-vs-reference", map[string]interface{}{"tier": "slow client: forced transmission right before the end of the input, client takes 100-500 us per message",
				"groups": sizes[i], "rows_in_result": len(rows), "rows_with_a_count_other_than_1": bad, "messages": res.Central.Messages, "error": res.Central.Err})
		}
	}
}

// c05Wire: partial results of magnitudes no generated file reaches (counts of millions and billions of lines, sums
// beyond 1e21, tiny fractions): see c05_wire_worker.go. The result of merging the scaled partials must be the result
// of the small table with counts and sums multiplied by the total scale, and min/max/avg unchanged.
func c05Wire(r *vlib.Run) {
	rng := r.Rng("wire")
	n := r.N(60, 600)
	scratch := r.Dir("c05wire")
	scalesPool := [][]int{{1}, {999999}, {1000000}, {1050000}, {210000, 1}, {333334, 333333, 333333}, {123456789}, {1000000000, 7}, {2, 3}, {99999, 900001}, {16777217}, {4000000000000}}
	var cases []interface{}
	var typed []c05WireCase
	for i := 0; i < n; i++ {
		groups := 1 + rng.Intn(4)
		var lines []string
		for g := 0; g < groups; g++ {
			for k := 0; k < 1+rng.Intn(5); k++ {
				v := []string{"2", "-3", "0.5", "1000000", "1e3", "0", "7.25", "-0.000001", "123456.789"}[rng.Intn(9)]
				lines = append(lines, fmt.Sprintf("g=grp%d|v=%s|w=1", g, v))
			}
		}
		out := filepath.Join(scratch, fmt.Sprintf("w%d.csv", i))
		q := "select g,count($line),sum(v),min(v),max(v),avg(v),sum(w) group by g logformat generickv outfile " + out
		if rng.Intn(3) == 0 {
			q = "select g,count(v),sum(w),avg(w) group by g logformat generickv outfile " + out
		}
		pc := pipeCase{Query: q, Outfile: out, Servers: []pipeServer{{Host: "wire", Files: []pipeFile{{Lines: lines}}}}}
		base := c05WireCase{Pipe: pc, Scales: []int{1}}
		sc := c05WireCase{Pipe: pc, Scales: scalesPool[rng.Intn(len(scalesPool))]}
		sc.Pipe.Outfile = out + ".scaled.csv"
		sc.Pipe.Query = strings.Replace(q, out, sc.Pipe.Outfile, 1)
		cases = append(cases, base, sc)
		typed = append(typed, base, sc)
	}
	results, crashes := r.RunBatchesOpts("c05wire", cases, vlib.BatchOpts{Size: 40, Workers: 8})
	for _, cr := range crashes {
		r.Violation("pipeline-crash", map[string]interface{}{"tier": "wire", "case": typed[cr.Any()], "stderr": vlib.Trunc(string(cr.Result.Stderr), 3000)})
	}
	parse := func(raw json.RawMessage) (map[string][]string, []string, *c05WireResult) {
		if raw == nil {
			return nil, nil, nil
		}
		var res c05WireResult
		json.Unmarshal(raw, &res)
		header, rows := mq.ParseCSV(res.CSV)
		m := map[string][]string{}
		for _, row := range rows {
			if len(row) > 0 {
				m[row[0]] = row
			}
		}
		return m, header, &res
	}
	for i := 0; i+1 < len(results); i += 2 {
		baseRows, header, bres := parse(results[i])
		scRows, _, sres := parse(results[i+1])
		if bres == nil || sres == nil {
			continue
		}
		total := 0.0
		for _, k := range typed[i+1].Scales {
			total += float64(k)
		}
		r.Eval(fmt.Sprintf("wire|%v|%x", typed[i+1].Scales, hashStrings(typed[i].Pipe.Servers[0].Files[0].Lines)))
		r.Count("wire_cases", 1)
		r.Count("wire_messages_reissued_with_scaled_values", sres.Messages)
		if total >= 1e6 {
			r.Count("wire_cases_with_counts_of_a_million_lines_and_more", 1)
		}
		if i < 2 {
			r.Sample(map[string]interface{}{"tier": "wire", "scales": typed[i+1].Scales, "wire_messages": sres.Samples, "result": sres.CSV})
		}
		fail := func(why string) {
			r.Violation("partials-of-large-magnitude-merged-wrongly", map[string]interface{}{"why": why, "query": typed[i].Pipe.Query, "lines": typed[i].Pipe.Servers[0].Files[0].Lines,
				"scales": typed[i+1].Scales, "result_unscaled": bres.CSV, "result_scaled": sres.CSV, "wire_messages": sres.Samples, "error": sres.Err})
		}
		if bres.Err != "" || sres.Err != "" || len(baseRows) == 0 {
			if sres.Err != "" && bres.Err == "" {
				fail("scaled run failed: " + sres.Err)
			} else {
				r.Inconclusive("wire-base-run")
			}
			continue
		}
		if len(scRows) != len(baseRows) {
			fail(fmt.Sprintf("%d groups, want %d", len(scRows), len(baseRows)))
			continue
		}
		// expectation computed from the lines themselves (the result files only carry six decimals, so one result
		// cannot be the yardstick of the other): per group n, sum, sum of magnitudes, min, max
		type gstat struct{ n, sum, abs, min, max float64 }
		stats := map[string]*gstat{}
		for _, l := range typed[i].Pipe.Servers[0].Files[0].Lines {
			f := strings.Split(l, "|")
			g := strings.TrimPrefix(f[0], "g=")
			v, _ := strconv.ParseFloat(strings.TrimPrefix(f[1], "v="), 64)
			st := stats[g]
			if st == nil {
				st = &gstat{min: v, max: v}
				stats[g] = st
			}
			st.n++
			st.sum += v
			st.abs += math.Abs(v)
			st.min, st.max = math.Min(st.min, v), math.Max(st.max, v)
		}
		check := func(rows map[string][]string, scale float64, which string) string {
			for g, st := range stats {
				row, ok := rows[g]
				if !ok || len(row) != len(header) {
					return which + ": group " + g + " missing or of another width"
				}
				for c := 1; c < len(header); c++ {
					got, err := strconv.ParseFloat(row[c], 64)
					if err != nil {
						return fmt.Sprintf("%s: column %s of group %s is not a number: %q", which, header[c], g, row[c])
					}
					var want, mag float64
					switch header[c] {
					case "count($line)", "count(v)", "sum(w)":
						want, mag = st.n*scale, st.n*scale
					case "sum(v)":
						want, mag = st.sum*scale, st.abs*scale
					case "min(v)":
						want, mag = st.min, math.Abs(st.min)
					case "max(v)":
						want, mag = st.max, math.Abs(st.max)
					case "avg(v)":
						want, mag = st.sum/st.n, st.abs/st.n
					case "avg(w)":
						want, mag = 1, 1
					default:
						continue
					}
					// floating-point rounding of the sums (relative to the magnitudes summed) + the six printed decimals
					if math.Abs(got-want) > 1e-9*mag+1.1e-6 {
						return fmt.Sprintf("%s: column %s of group %s is %s, want %v (scale %v)", which, header[c], g, row[c], want, scale)
					}
				}
			}
			return ""
		}
		if why := check(baseRows, 1, "unscaled run"); why != "" {
			fail(why)
		} else if why := check(scRows, total, "scaled run"); why != "" {
			fail(why)
		}
	}
}

func c05Check(r *vlib.Run, i int, m *c05Meta, res *c05Result, c c05Case) {
	q := m.Q
	parts := 0
	for _, s := range c.Parted.Servers {
		for _, f := range s.Files {
			if len(f.Lines) > 0 {
				parts += 1 + len(f.Cuts)
			}
		}
	}
	key := ""
	if len(m.Lines) >= 2 && parts >= 2 {
		key = fmt.Sprintf("%s|%x|%s", m.Text, hashStrings(m.T.Lines), m.Shape)
	}
	r.Eval(key)
	r.SetAdd("shape", m.Shape)
	r.Count("partial_transmissions_observed", res.Parted.Messages)
	r.Max("max_partial_transmissions_in_one_run", res.Parted.Messages)
	if i < 4 {
		r.Sample(map[string]interface{}{"query": m.Text, "format": m.T.Format, "n_lines": len(m.Lines), "shape": m.Shape,
			"messages": res.Parted.Messages, "csv": vlib.Trunc(res.Parted.CSV, 400), "first_lines": clipStrings(m.T.Lines, 2)})
	}
	fail := func(what string, d map[string]interface{}) {
		d["query"] = m.Text
		d["abstract"] = q
		d["table"] = m.T
		d["shape"] = m.Shape
		d["partition"] = c.Parted.Servers
		r.Violation(what, d)
	}
	for _, p := range []pipeResult{res.Central, res.Parted} {
		if p.ParseErr != "" || p.Err != "" {
			fail("pipeline-error", map[string]interface{}{"parse_err": p.ParseErr, "err": p.Err})
			return
		}
	}
	groups := q.Evaluate(m.T.Format, m.Lines, m.T.CSVHeader)
	if !q.UsesHostname() {
		// central reference: server identity is irrelevant
	}
	hC, rowsC := mq.ParseCSV(res.Central.CSV)
	hP, rowsP := mq.ParseCSV(res.Parted.CSV)
	if len(rowsP) > 0 {
		r.Count("runs_with_rows", 1)
	}
	if why := q.CheckResult(groups, hC, rowsC); why != "" {
		fail("central-vs-reference", map[string]interface{}{"why": why, "csv": vlib.Trunc(res.Central.CSV, 1500)})
		return
	}
	if why := q.CheckResult(groups, hP, rowsP); why != "" {
		fail("partitioned-vs-reference", map[string]interface{}{"why": why, "csv_partitioned": vlib.Trunc(res.Parted.CSV, 1500),
			"csv_central": vlib.Trunc(res.Central.CSV, 1500), "messages": res.Parted.Messages})
		return
	}
	// metamorphic: row by row when keyed and not cut by a limit
	if m.Keyed > 0 && (q.Limit == nil || *q.Limit >= len(groups)) {
		r.Count("keyed_row_comparisons", 1)
		idx := func(rows [][]string) map[string][]string {
			out := map[string][]string{}
			for _, row := range rows {
				out[strings.Join(row[:m.Keyed], "\x00")] = row
			}
			return out
		}
		a, b := idx(rowsC), idx(rowsP)
		if len(a) != len(rowsC) || len(b) != len(rowsP) {
			fail("duplicate-key-rows", map[string]interface{}{"csv_partitioned": res.Parted.CSV, "csv_central": res.Central.CSV})
			return
		}
		for k, ra := range a {
			rb, ok := b[k]
			if !ok {
				fail("row-missing-in-partitioned", map[string]interface{}{"key": k, "csv_partitioned": res.Parted.CSV, "csv_central": res.Central.CSV})
				return
			}
			for ci := m.Keyed; ci < len(ra); ci++ {
				op := q.Sel[ci].Op()
				if op == "last" || op == "len" {
					continue
				}
				x, ok1 := parseF(ra[ci])
				y, ok2 := parseF(rb[ci])
				if !ok1 || !ok2 || !mq.FloatClose(x, y) {
					fail("central-vs-partitioned", map[string]interface{}{"key": k, "column": q.Sel[ci].Storage(),
						"central": ra[ci], "partitioned": rb[ci], "csv_partitioned": vlib.Trunc(res.Parted.CSV, 1500),
						"csv_central": vlib.Trunc(res.Central.CSV, 1500)})
					return
				}
			}
		}
	}
}

func parseF(s string) (float64, bool) {
	var f float64
	_, err := fmt.Sscanf(s, "%g", &f)
	return f, err == nil
}

// c05E2E: real dmap against real servers over SSH, one file per server or
// several files per server behind one glob.
func c05E2E(r *vlib.Run) {
	nFleets := r.N(2, 12)
	perFleet := r.N(8, 60)
	rng := r.Rng("e2e")
	seeds := make([]int64, nFleets)
	for i := range seeds {
		seeds[i] = rng.Int63()
	}
	vlib.Parallel(nFleets, 4, func(fi int) {
		frng := rand.New(rand.NewSource(seeds[fi]))
		nSrv := 1 + frng.Intn(5)
		fl, err := startFleet(r, fmt.Sprintf("c05f%d", fi), nSrv, map[string]interface{}{"MaxConcurrentCats": 4}, nil, "error")
		if err != nil {
			r.Inconclusive("fleet-start")
			return
		}
		defer fl.Stop()
		for ci := 0; ci < perFleet; ci++ {
			format := []string{"default", "default", "generickv", "csv"}[frng.Intn(4)]
			t := mq.GenTable(frng, format, 120)
			if frng.Intn(3) == 0 && format != "csv" {
				t.GroupFields = append(t.GroupFields, "$hostname")
			}
			q := mq.GenQuery(frng, t)
			if ci < 2 && format != "csv" {
				// a result with thousands of groups: the partial results of a server
				// are far larger than one transport read of the client
				for len(t.Lines) < 2500 {
					t = mq.GenTable(frng, format, 6000)
				}
				q = mq.GenQuery(frng, t)
				idField, numField := "", ""
				for _, f := range t.StrFields {
					if strings.Contains(f, "id") {
						idField = f
					}
				}
				for _, f := range t.NumFields {
					if strings.Contains(f, "bytes") {
						numField = f
					}
				}
				if idField != "" && numField != "" {
					q.Sel = []mq.Sel{{Field: idField}, {Agg: "count", Field: idField}, {Agg: "sum", Field: numField}, {Agg: "max", Field: numField}}
					q.GroupBy, q.Where, q.Set, q.OrderBy, q.Limit = []string{idField}, nil, nil, "", nil
					r.Count("e2e_runs_with_thousands_of_groups", 1)
				}
			}
			out := filepath.Join(fl.Home, fmt.Sprintf("out%d.csv", ci))
			os.Remove(out)
			q.Outfile = &mq.Outfile{Path: out, Quoted: true}
			if q.Interval == nil || *q.Interval > 2 {
				one := 1
				if frng.Intn(2) == 0 {
					q.Interval = &one
				}
			}
			text := q.Render(&mq.Style{Rng: frng, Plain: frng.Intn(2) == 0})
			var lines []mq.Line
			per := make([][]string, nSrv)
			for _, l := range t.Lines {
				s := frng.Intn(nSrv)
				per[s] = append(per[s], l)
			}
			// one file per server, or the server's lines spread over up to
			// three files requested with one glob (one read command: the
			// recorded command race c06.cmd-race cannot occur)
			rel := fmt.Sprintf("data/in%d.log", ci)
			nParts := 1
			// (csv: the aggregator takes the first line it sees as the header,
			// so only one file per server carries one)
			if frng.Intn(2) == 0 && format != "csv" {
				nParts = 2 + frng.Intn(2)
				rel = fmt.Sprintf("data/in%d/p*.log", ci)
				r.Count("e2e_runs_with_several_files_per_server", 1)
			}
			var written [][2]string
			for s := 0; s < nSrv; s++ {
				parts := make([][]string, nParts)
				for _, l := range per[s] {
					k := frng.Intn(nParts)
					parts[k] = append(parts[k], l)
				}
				for k := 0; k < nParts; k++ {
					body := parts[k]
					if format == "csv" {
						body = append([]string{strings.Join(t.CSVHeader, ",")}, body...)
					}
					content := strings.Join(body, "\n")
					if len(body) > 0 && frng.Intn(8) != 0 {
						content += "\n"
					}
					name := rel
					if nParts > 1 {
						name = fmt.Sprintf("data/in%d/p%d.log", ci, k)
					}
					fl.WriteFile(s, name, []byte(content))
					written = append(written, [2]string{fl.Servers[s].Spec.Dir, name})
				}
				for _, l := range tableFilter(t.Format, q.Table, per[s]) {
					lines = append(lines, mq.Line{Text: l, Server: fl.Servers[s].Spec.Name})
				}
			}
			args := append(fl.ClientArgs(), "--noColor", "--logLevel", "error", "--files", rel, "--query", text)
			res := vlib.RunCmd(vlib.Cmd{Path: r.Bin("dmap"), Args: args, Env: fl.ClientEnv(), Dir: fl.Home})
			r.Eval(fmt.Sprintf("e2e|%s|%d|%x", text, nSrv, hashStrings(t.Lines)))
			r.Count("e2e_runs", 1)
			if res.TimedOut {
				r.Inconclusive("dmap-watchdog")
				continue
			}
			detail := map[string]interface{}{"query": text, "abstract": q, "table": t, "servers": nSrv,
				"exit": res.Exit, "stderr": vlib.Trunc(string(res.Stderr), 1500), "stdout": vlib.Trunc(string(res.Stdout), 800)}
			if res.Hung || res.Exit != 0 || res.Panicked() {
				detail["hung"] = res.Hung
				r.Violation("e2e-dmap-failed", detail)
				continue
			}
			b, err := os.ReadFile(out)
			if err != nil {
				detail["err"] = err.Error()
				r.Violation("e2e-no-outfile", detail)
				continue
			}
			groups := q.Evaluate(t.Format, lines, t.CSVHeader)
			h, rows := mq.ParseCSV(string(b))
			if why := q.CheckResult(groups, h, rows); why != "" {
				detail["why"] = why
				detail["csv"] = vlib.Trunc(string(b), 1500)
				r.Violation("e2e-vs-reference", detail)
			}
			if len(rows) > 0 {
				r.Count("e2e_runs_with_rows", 1)
			}
			os.Remove(out)
			os.Remove(out + ".query")
			for _, w := range written {
				os.Remove(filepath.Join(w[0], w[1]))
			}
		}
		if !fl.AllAlive() {
			r.Violation("e2e-server-died", map[string]interface{}{"fleet": fi})
		}
	})
}
