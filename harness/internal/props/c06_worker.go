//go:build w_mapr

package props

import (
	"encoding/json"
	"fmt"
	"github.com/mimecast/dtail/internal/mapr"
	maprclient "github.com/mimecast/dtail/internal/mapr/client"
	"github.com/mimecast/dtail/internal/source"
	"github.com/mimecast/dtail/verifharness/internal/dt"
	"github.com/mimecast/dtail/verifharness/internal/vlib"
	"strconv"
	"strings"
	"sync"
)

func init() {
	Children["c06merge"] = c06MergeChild
}

func c06MergeChild(args []string) int {
	dir := args[0]
	dt.Init(source.Client, "none", "none", "error", true)
	return vlib.BatchMain(dir, func(i int, raw json.RawMessage) interface{} {
		var c c06MergeCase
		json.Unmarshal(raw, &c)
		q, err := mapr.NewQuery("select g,count($line),sum(w) from CONS group by g")
		if err != nil {
			return map[string]interface{}{"err": err.Error()}
		}
		global := mapr.NewGlobalGroupSet()
		var wg sync.WaitGroup
		start := make(chan struct{})
		for n := 0; n < c.N; n++ {
			wg.Add(1)
			go func(n int) {
				defer wg.Done()
				a := maprclient.NewAggregate(fmt.Sprintf("srv%d", n), q, global)
				<-start
				for k := 0; k < c.K; k++ {
					g := k % c.Groups
					a.Aggregate(fmt.Sprintf("g%d∥1∥count($line)≔1∥sum(w)≔1∥g≔g%d∥", g, g))
				}
			}(n)
		}
		// a concurrent reader of interim results, like the periodic reporter
		stop := make(chan struct{})
		go func() {
			for {
				select {
				case <-stop:
					return
				default:
					global.Result(q, 10)
				}
			}
		}()
		close(start)
		wg.Wait()
		close(stop)
		res, _, err := global.Result(q, 1000)
		total := 0
		for _, l := range strings.Split(res, "\n") {
			f := strings.Split(l, "|")
			if len(f) == 3 {
				if v, err := strconv.Atoi(strings.TrimSpace(f[1])); err == nil {
					total += v
				}
			}
		}
		return map[string]interface{}{"total": total, "want": c.N * c.K}
	})
}

func init() {
	Children["c06agg"] = c06AggChild
}

// c06AggChild drives one real server-side aggregator the way a session does:
// one file channel, lines in many groups, report intervals (the exported
// Serialize, which is what the interval timer calls) while lines keep coming,
// end of input; the consumer of the partial results is not infinitely fast.
// Conservation: the partial results handed over account for every line once.
func c06AggChild(args []string) int {
	dir := args[0]
	dt.Init(source.Server, "none", "none", "error", true)
	return vlib.BatchMainPar(dir, 8, func(i int, raw json.RawMessage) interface{} {
		var c c06AggCase
		json.Unmarshal(raw, &c)
		return runAggCase(c)
	})
}
