package props

import (
	"encoding/json"
	"fmt"
	"math/rand"
	"os"
	"path/filepath"
	"regexp"
	"strings"
	"time"

	"github.com/mimecast/dtail/verifharness/internal/mq"
	"github.com/mimecast/dtail/verifharness/internal/vlib"
)

// C11 — valid queries parse to the structure they denote; invalid ones are
// rejected; parsing never panics.

type c11Case struct {
	Class string    `json:"class"` // valid | malformed | mutant
	Q     string    `json:"q"`
	Pipe  *pipeCase `json:"pipe,omitempty"`
	Why   string    `json:"why,omitempty"` // malformed: which rule is broken
}

type c11Info struct {
	Table      string   `json:"table"`
	GroupBy    []string `json:"group_by"`
	OrderBy    string   `json:"order_by"`
	Reverse    bool     `json:"reverse"`
	IntervalS  float64  `json:"interval_s"`
	Limit      int      `json:"limit"`
	HasOutfile bool     `json:"has_outfile"`
	OutPath    string   `json:"out_path"`
	OutAppend  bool     `json:"out_append"`
	LogFormat  string   `json:"logformat"`
	NSelect    int      `json:"n_select"`
	NWhere     int      `json:"n_where"`
	NSet       int      `json:"n_set"`
	RawQuery   string   `json:"raw_query"`
}

type c11Result struct {
	Err   string      `json:"err,omitempty"`
	Nil   bool        `json:"nil,omitempty"`
	Panic string      `json:"panic,omitempty"`
	Info  *c11Info    `json:"info,omitempty"`
	Pipe  *pipeResult `json:"pipe,omitempty"`
	// Srv: verdicts of the server-side entry point for the first and for a
	// repeated submission of the same text
	Srv []string `json:"srv,omitempty"`
}

func init() {
	Drivers["C11"] = c11
}

// tableRegex is the line filter the mapreduce client sends for a table
// (doc: "TABLE := The mapreduce table name, e.g. STATS in MAPREDUCE:STATS").
func tableFilter(format, table string, lines []string) []string {
	if format != "default" || table == "" {
		return lines
	}
	re := regexp.MustCompile(`\|MAPREDUCE:` + regexp.QuoteMeta(strings.ToUpper(table)) + `\|`)
	var out []string
	for _, l := range lines {
		if re.MatchString(l) {
			out = append(out, l)
		}
	}
	return out
}

func c11MalformedCases(rng *rand.Rand, n int) []c11Case {
	type mal struct{ why, q string }
	fields := []string{"foo", "bar", "$x", "lat"}
	f := func() string { return fields[rng.Intn(len(fields))] }
	gens := []func() mal{
		func() mal { return mal{"no select list", fmt.Sprintf("from %s where %s eq %s", f(), f(), f())} },
		func() mal { return mal{"empty select list", fmt.Sprintf("select from %s", f())} },
		func() mal { return mal{"from without table", fmt.Sprintf("select %s from", f())} },
		func() mal {
			return mal{"from without table (followed by keyword)", fmt.Sprintf("select %s from where %s eq %s", f(), f(), f())}
		},
		func() mal { return mal{"from with two tables", fmt.Sprintf("select %s from %s %s", f(), f(), f())} },
		func() mal {
			return mal{"incomplete where (1 token)", fmt.Sprintf("select %s from t where %s", f(), f())}
		},
		func() mal {
			return mal{"incomplete where (2 tokens)", fmt.Sprintf("select %s from t where %s <", f(), f())}
		},
		func() mal {
			return mal{"incomplete second where condition", fmt.Sprintf("select %s from t where %s < 1 %s", f(), f(), f())}
		},
		func() mal {
			return mal{"unknown where operator", fmt.Sprintf("select %s from t where %s %s 1", f(), f(),
				[]string{"===", "like", "<>", "=", "is", "~"}[rng.Intn(6)])}
		},
		func() mal {
			return mal{"unknown aggregation", fmt.Sprintf("select %s(%s) from t",
				[]string{"median", "cnt", "total", "SUM", "Count", "first"}[rng.Intn(6)], f())}
		},
		func() mal { return mal{"unbalanced parenthesis", fmt.Sprintf("select sum(%s from t", f())} },
		func() mal { return mal{"unbalanced parenthesis", fmt.Sprintf("select sum(%s)) from t", f())} },
		func() mal { return mal{"nested aggregation", fmt.Sprintf("select sum(max(%s)) from t", f())} },
		func() mal {
			return mal{"order by a column which is not selected", fmt.Sprintf("select count(%s) from t group by %s %s by sum(%s)",
				f(), f(), []string{"order", "rorder"}[rng.Intn(2)], f())}
		},
		func() mal { return mal{"order without operand", fmt.Sprintf("select %s from t order by", f())} },
		func() mal { return mal{"group without operand", fmt.Sprintf("select %s from t group by", f())} },
		func() mal {
			return mal{"non-numeric limit", fmt.Sprintf("select %s from t limit %s", f(), []string{"ten", "1.5", "1e3", "0x10", "--1", "0b11", "0o17", "1_000", "0x1f"}[rng.Intn(9)])}
		},
		func() mal { return mal{"limit without operand", fmt.Sprintf("select %s from t limit", f())} },
		func() mal {
			return mal{"non-numeric interval", fmt.Sprintf("select %s from t interval %s", f(), []string{"soon", "2.5", "1s", "5m", "0x3c", "0b11", "6_0"}[rng.Intn(7)])}
		},
		func() mal { return mal{"set lvalue without $", fmt.Sprintf("select %s from t set foo = %s", f(), f())} },
		func() mal { return mal{"set without =", fmt.Sprintf("select %s from t set $v %s %s", f(), f(), f())} },
		func() mal { return mal{"incomplete set", fmt.Sprintf("select %s from t set $v =", f())} },
		func() mal {
			return mal{"set with unknown function", fmt.Sprintf("select %s from t set $v = %s(%s)", f(),
				[]string{"sha1", "upper", "md5"}[rng.Intn(3)], f())}
		},
		func() mal {
			return mal{"unknown leading keyword", fmt.Sprintf("%s select %s from t", []string{"foo", "explain", "with"}[rng.Intn(3)], f())}
		},
		func() mal {
			return mal{"outfile with three operands", fmt.Sprintf("select %s from t outfile append a.csv b.csv", f())}
		},
		func() mal {
			return mal{"outfile with two operands, first is not append", fmt.Sprintf("select %s from t outfile a.csv b.csv", f())}
		},
		func() mal { return mal{"outfile without operand", fmt.Sprintf("select %s from t outfile", f())} },
		func() mal { return mal{"logformat without operand", fmt.Sprintf("select %s from t logformat", f())} },
	}
	var out []c11Case
	for i := 0; i < n; i++ {
		m := gens[i%len(gens)]()
		// random harmless surface variation of the malformed query
		q := m.q
		if rng.Intn(3) == 0 {
			q = strings.ReplaceAll(q, " ", "  ")
		}
		if rng.Intn(3) == 0 {
			q = strings.Replace(q, "select", "SELECT", 1)
		}
		out = append(out, c11Case{Class: "malformed", Q: q, Why: m.why})
	}
	return out
}

func c11Mutants(rng *rand.Rand, base []string, n int) []c11Case {
	var out []c11Case
	inject := []string{"`", "\"", "(", ")", "\x00", "``", "` `", "\"\"", ",", "=", "$", "((", "))", "`\"", "\n", "\t", "'", "\\", "≔", "∥", "¬"}
	for i := 0; i < n; i++ {
		q := base[rng.Intn(len(base))]
		switch rng.Intn(7) {
		case 0: // truncate
			if len(q) > 0 {
				q = q[:rng.Intn(len(q))]
			}
		case 1: // inject a special
			p := rng.Intn(len(q) + 1)
			q = q[:p] + inject[rng.Intn(len(inject))] + q[p:]
		case 2: // replace a token with a special
			toks := strings.Fields(q)
			if len(toks) > 0 {
				toks[rng.Intn(len(toks))] = inject[rng.Intn(len(inject))]
				q = strings.Join(toks, " ")
			}
		case 3: // delete a token
			toks := strings.Fields(q)
			if len(toks) > 1 {
				k := rng.Intn(len(toks))
				toks = append(toks[:k], toks[k+1:]...)
				q = strings.Join(toks, " ")
			}
		case 4: // duplicate a token
			toks := strings.Fields(q)
			if len(toks) > 0 {
				k := rng.Intn(len(toks))
				toks = append(toks[:k+1], toks[k:]...)
				q = strings.Join(toks, " ")
			}
		case 5: // swap two tokens
			toks := strings.Fields(q)
			if len(toks) > 1 {
				a, b := rng.Intn(len(toks)), rng.Intn(len(toks))
				toks[a], toks[b] = toks[b], toks[a]
				q = strings.Join(toks, " ")
			}
		case 6: // random bytes
			b := make([]byte, rng.Intn(40))
			for j := range b {
				b[j] = byte(rng.Intn(256))
			}
			p := rng.Intn(len(q) + 1)
			q = q[:p] + string(b) + q[p:]
		}
		out = append(out, c11Case{Class: "mutant", Q: q})
	}
	// every prefix of a few queries, and the lone specials
	for k := 0; k < 3 && k < len(base); k++ {
		q := base[rng.Intn(len(base))]
		for p := 0; p <= len(q); p++ {
			out = append(out, c11Case{Class: "mutant", Q: q[:p]})
		}
	}
	for _, s := range inject {
		out = append(out, c11Case{Class: "mutant", Q: s}, c11Case{Class: "mutant", Q: "select " + s},
			c11Case{Class: "mutant", Q: "select a from t where " + s}, c11Case{Class: "mutant", Q: "select a from t set " + s},
			c11Case{Class: "mutant", Q: "select a from t group by " + s}, c11Case{Class: "mutant", Q: "select a from t outfile " + s})
	}
	return out
}

type c11Valid struct {
	Q      *mq.Query
	T      *mq.Table
	Text   string
	Format string
}

func c11(r *vlib.Run) int {
	min := c11Body(r)
	if r.Tier == "thorough" || os.Getenv("VERIF_FORCE_RACE") != "" {
		// the workers parse and evaluate 8 queries at a time: the race
		// detector watches the parser and evaluator state meanwhile
		r.RacePass([]string{"internal/mapr."}, func() { c11Body(r) })
	}
	return min
}

func c11Body(r *vlib.Run) int {
	r.Rule("valid: random abstract query over a generated table's fields, rendered with random clause order, keyword case, " +
		"comma/blank separators, optional 'by', back-quoted names, quoted strings containing keywords/commas/blanks; " +
		"oracle A: exported fields of the parsed query == abstract query; oracle B: the parsed query, run by the real " +
		"aggregation pipeline over the table, yields the rows of the independent reference evaluator. malformed: 28 " +
		"rule-breaking classes must return an error. mutants: byte/token mutations and all prefixes must return without " +
		"panic. distinct = distinct query texts; non-trivial = at least 2 clauses.")
	r.Assume("function, operator and aggregation names and 'append' are lower case (the documentation shows them lower case only)")
	r.Assume("empty quoted strings and quoted strings wrapped in back-quotes are not generated (doc offers $empty)")
	nValid := r.N(20000, 400000)
	nMal := r.N(6000, 100000)
	nMut := r.N(30000, 1500000)

	rng := r.Rng("valid")
	scratch := r.Dir("c11out")
	var cases []interface{}
	var valids []*c11Valid
	var texts []string
	for i := 0; i < nValid; i++ {
		format := []string{"default", "default", "generickv", "generickv", "csv", "generic"}[rng.Intn(6)]
		t := mq.GenTable(rng, format, 14)
		q := mq.GenQuery(rng, t)
		pipe := rng.Intn(3) != 0
		switch {
		case pipe:
			q.Outfile = &mq.Outfile{Path: filepath.Join(scratch, fmt.Sprintf("o%d.csv", i)), Quoted: rng.Intn(2) == 0, Append: rng.Intn(5) == 0}
		case rng.Intn(2) == 0:
			q.Outfile = &mq.Outfile{Path: []string{"out.csv", "/tmp/x y.csv", "a,b.csv", "limit", "res-1.csv"}[rng.Intn(5)],
				Quoted: true, Append: rng.Intn(3) == 0}
			if rng.Intn(3) == 0 {
				q.Outfile.Path, q.Outfile.Quoted = "plain.csv", false
			}
		}
		text := q.Render(&mq.Style{Rng: rng})
		c := c11Case{Class: "valid", Q: text}
		if pipe {
			lines := tableFilter(t.Format, q.Table, t.Lines)
			if t.Format == "csv" {
				lines = append([]string{strings.Join(t.CSVHeader, ",")}, lines...)
			}
			c.Pipe = &pipeCase{Query: text, Outfile: q.Outfile.Path,
				Servers: []pipeServer{{Host: "srv1", Files: []pipeFile{{Lines: lines}}}}}
		}
		cases = append(cases, c)
		valids = append(valids, &c11Valid{Q: q, T: t, Text: text, Format: format})
		texts = append(texts, text)
	}
	nv := len(cases)
	mal := c11MalformedCases(r.Rng("malformed"), nMal)
	for _, c := range mal {
		cases = append(cases, c)
	}
	muts := c11Mutants(r.Rng("mutants"), texts, nMut)
	for _, c := range muts {
		cases = append(cases, c)
	}

	start := time.Now()
	results, crashes := r.RunBatches("c11", cases, 400, 14, nil, nil)
	r.Extra("worker_wall_s", time.Since(start).Seconds())
	for _, cr := range crashes {
		var c c11Case
		b, _ := json.Marshal(cases[cr.Any()])
		json.Unmarshal(b, &c)
		r.Violation("parser-crash-"+c.Class, map[string]interface{}{"query": c.Q, "query_hex": fmt.Sprintf("%x", c.Q),
			"stderr": vlib.Trunc(string(cr.Result.Stderr), 3000)})
	}
	for i, raw := range results {
		if raw == nil {
			continue
		}
		var res c11Result
		json.Unmarshal(raw, &res)
		if res.Panic == "" {
			var cc c11Case
			b, _ := json.Marshal(cases[i])
			json.Unmarshal(b, &cc)
			want := "accepted"
			if res.Err != "" || res.Nil {
				want = "rejected"
			}
			for k, v := range res.Srv {
				r.Count("server_side_submissions_checked", 1)
				if v != want {
					r.Violation("server-verdict-differs-from-parser", map[string]interface{}{"query": cc.Q, "query_hex": fmt.Sprintf("%x", cc.Q),
						"parser": want, "server": v, "submission": k + 1, "parse_error": res.Err})
					break
				}
			}
		}
		switch {
		case i < nv:
			c11CheckValid(r, i, valids[i], &res)
		case i < nv+len(mal):
			m := mal[i-nv]
			r.Eval("mal|" + m.Q)
			r.SetAdd("malformed_class", m.Why)
			if res.Panic != "" {
				r.Violation("panic-malformed", map[string]interface{}{"query": m.Q, "panic": res.Panic})
			} else if res.Err == "" {
				r.Violation("malformed-accepted", map[string]interface{}{"query": m.Q, "broken_rule": m.Why, "parsed_as": res.Info})
			}
		default:
			m := muts[i-nv-len(mal)]
			r.Eval("")
			r.Count("mutants", 1)
			if res.Err != "" {
				r.Count("mutants_rejected", 1)
			}
			if res.Panic != "" {
				r.Violation("panic-mutant", map[string]interface{}{"query": m.Q, "query_hex": fmt.Sprintf("%x", m.Q), "panic": res.Panic})
			}
		}
	}
	// end-to-end denotation: the query travels the real way (client encodes the
	// map command, the server-side handler decodes and parses it again)
	c11E2E(r, valids, cases, nv, scratch)
	os.RemoveAll(scratch)
	// concurrent parsing tier
	var ccases []interface{}
	per := 400
	for lo := 0; lo+per <= len(texts) && len(ccases) < r.N(14, 140); lo += per {
		ccases = append(ccases, texts[lo:lo+per])
	}
	cres, ccrashes := r.RunBatches("c11conc", ccases, 1, 14, nil, nil)
	for _, cr := range ccrashes {
		r.Violation("concurrent-parse-crash", map[string]interface{}{"stderr": vlib.Trunc(string(cr.Result.Stderr), 3000)})
	}
	for _, raw := range cres {
		if raw == nil {
			continue
		}
		var res struct {
			Parses     int `json:"parses"`
			Mismatches []struct{ Q, Alone, Concurrent string }
		}
		json.Unmarshal(raw, &res)
		r.Evals(res.Parses)
		r.Count("concurrent_parses", res.Parses)
		for _, m := range res.Mismatches {
			r.Violation("parse-differs-under-concurrency", map[string]interface{}{"query": m.Q, "parsed_alone": m.Alone, "parsed_concurrently": m.Concurrent})
		}
	}
	return (nValid + nMal) / 2
}

func c11E2E(r *vlib.Run, valids []*c11Valid, cases []interface{}, nv int, scratch string) {
	max := r.N(150, 2500)
	var idx []int
	// queries whose quoted strings contain a run of blanks first: the command
	// path splits and re-joins the query at blanks
	blankRun := regexp.MustCompile(`"[^"]*  [^"]*"`)
	for pass := 0; pass < 2; pass++ {
		for i := 0; i < nv && len(idx) < max; i++ {
			c, ok := cases[i].(c11Case)
			if !ok || c.Pipe == nil {
				continue
			}
			if (pass == 0) == blankRun.MatchString(c.Q) {
				idx = append(idx, i)
			}
		}
	}
	os.MkdirAll(scratch, 0755)
	smallLineCfg := filepath.Join(scratch, "small-maxline.json")
	os.WriteFile(smallLineCfg, []byte(`{"Server":{"MaxLineLength":1024}}`), 0644)
	vlib.Parallel(len(idx), 12, func(k int) {
		i := idx[k]
		v := valids[i]
		q := v.Q
		in := filepath.Join(scratch, fmt.Sprintf("e2e-in-%d.log", i))
		lines := v.T.Lines
		if v.T.Format == "csv" {
			lines = append([]string{strings.Join(v.T.CSVHeader, ",")}, lines...)
		}
		body := strings.Join(lines, "\n")
		if len(lines) > 0 {
			body += "\n"
		}
		os.WriteFile(in, []byte(body), 0644)
		defer os.Remove(in)
		os.Remove(q.Outfile.Path)
		text, cfg := v.Text, ""
		if k%5 == 4 && !strings.HasPrefix(text, " ") {
			// a server with a small MaxLineLength (the integration test value) and
			// a query that is nearly as long: the grammar allows any amount of
			// whitespace between tokens
			if sp := strings.Index(text, " "); sp > 0 && !strings.ContainsAny(text[:sp], "\"`") {
				text = text[:sp] + strings.Repeat(" ", 880-len(text)%97) + text[sp:]
				cfg = smallLineCfg
				r.Count("e2e_runs_long_query_small_max_line_length", 1)
			}
		}
		res := runServerless(r, "dmap", []string{"--noColor", "--files", in, "--query", text}, cfg, nil)
		r.Eval("")
		r.Count("e2e_denotation_runs", 1)
		if res.TimedOut {
			r.Inconclusive("dmap-watchdog")
			return
		}
		d := map[string]interface{}{"query": text, "abstract": q, "table": v.T, "exit": res.Exit, "hung": res.Hung,
			"stderr": vlib.Trunc(string(res.Stderr), 1000), "stdout": vlib.Trunc(string(res.Stdout), 600)}
		if res.Hung || res.Exit != 0 || res.Panicked() {
			r.Violation("e2e-dmap-failed", d)
			return
		}
		b, err := os.ReadFile(q.Outfile.Path)
		os.Remove(q.Outfile.Path)
		os.Remove(q.Outfile.Path + ".query")
		if err != nil {
			d["err"] = err.Error()
			r.Violation("e2e-no-outfile", d)
			return
		}
		var ls []mq.Line
		for _, l := range tableFilter(v.T.Format, q.Table, v.T.Lines) {
			ls = append(ls, mq.Line{Text: l, Server: "x"})
		}
		if q.UsesHostname() {
			return // the serverless host name is not under the harness' control
		}
		groups := q.Evaluate(v.T.Format, ls, v.T.CSVHeader)
		h, rows := mq.ParseCSV(string(b))
		if q.Outfile.Append {
			return
		}
		if why := q.CheckResult(groups, h, rows); why != "" {
			d["why"] = why
			d["csv"] = vlib.Trunc(string(b), 1200)
			r.Violation("e2e-denotation-mismatch", d)
		}
	})
}

func c11CheckValid(r *vlib.Run, i int, v *c11Valid, res *c11Result) {
	q := v.Q
	nClauses := 1
	for _, b := range []bool{q.Table != "", len(q.Where) > 0, len(q.Set) > 0, len(q.GroupBy) > 0, q.OrderBy != "",
		q.Interval != nil, q.Limit != nil, q.Outfile != nil, q.LogFormat != ""} {
		if b {
			nClauses++
		}
	}
	key := ""
	if nClauses >= 2 {
		key = "valid|" + v.Text
	}
	r.Eval(key)
	r.SetAdd("valid_shape", fmt.Sprintf("%s/w%d/s%d/g%d/o%v/l%v", v.Format, len(q.Where), len(q.Set), len(q.GroupBy), q.OrderBy != "", q.Limit != nil))
	if i < 5 {
		r.Sample(map[string]interface{}{"query": v.Text, "abstract": q, "parsed": res.Info, "table_lines": clipStrings(v.T.Lines, 3)})
	}
	fail := func(what string, detail map[string]interface{}) {
		detail["query"] = v.Text
		detail["abstract"] = q
		r.Violation(what, detail)
	}
	if res.Panic != "" {
		fail("panic-valid", map[string]interface{}{"panic": res.Panic})
		return
	}
	if res.Err != "" || res.Info == nil {
		fail("valid-rejected", map[string]interface{}{"error": res.Err})
		return
	}
	in := res.Info
	var diffs []string
	chk := func(name string, got, want interface{}) {
		if fmt.Sprint(got) != fmt.Sprint(want) {
			diffs = append(diffs, fmt.Sprintf("%s: got %v want %v", name, got, want))
		}
	}
	chk("table", in.Table, strings.ToUpper(q.Table))
	chk("group by", in.GroupBy, q.EffectiveGroupBy())
	chk("order by", in.OrderBy, q.OrderBy)
	chk("reverse", in.Reverse, q.Reverse)
	wantInt := 5.0
	if q.Interval != nil {
		wantInt = float64(*q.Interval)
	}
	chk("interval", in.IntervalS, wantInt)
	wantLim := -1
	if q.Limit != nil {
		wantLim = *q.Limit
	}
	chk("limit", in.Limit, wantLim)
	chk("has outfile", in.HasOutfile, q.Outfile != nil)
	if q.Outfile != nil {
		chk("outfile path", in.OutPath, q.Outfile.Path)
		chk("outfile append", in.OutAppend, q.Outfile.Append)
	}
	chk("logformat", in.LogFormat, q.LogFormat)
	chk("#select", in.NSelect, len(q.Sel))
	chk("#where", in.NWhere, len(q.Where))
	chk("#set", in.NSet, len(q.Set))
	chk("raw query", in.RawQuery, v.Text)
	if len(diffs) > 0 {
		fail("structure-mismatch", map[string]interface{}{"diffs": diffs, "parsed": in})
		return
	}
	if res.Pipe == nil {
		return
	}
	r.Count("denotation_runs", 1)
	p := res.Pipe
	if p.ParseErr != "" || p.Err != "" {
		fail("pipeline-error", map[string]interface{}{"parse_err": p.ParseErr, "err": p.Err})
		return
	}
	var lines []mq.Line
	for _, l := range tableFilter(v.T.Format, q.Table, v.T.Lines) {
		lines = append(lines, mq.Line{Text: l, Server: "srv1"})
	}
	groups := q.Evaluate(v.T.Format, lines, v.T.CSVHeader)
	header, rows := mq.ParseCSV(p.CSV)
	if len(rows) > 0 {
		r.Count("denotation_runs_with_rows", 1)
	}
	if why := q.CheckResult(groups, header, rows); why != "" {
		fail("denotation-mismatch", map[string]interface{}{"why": why, "csv": vlib.Trunc(p.CSV, 1500),
			"table": v.T, "reference_groups": len(groups)})
	}
}
