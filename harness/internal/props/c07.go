package props

import (
	"bytes"
	"fmt"
	"hash/crc32"
	"math/rand"
	"os"
	"path/filepath"
	"strconv"
	"strings"
	"sync"
	"syscall"
	"time"

	"github.com/mimecast/dtail/verifharness/internal/vlib"
)

// C07 — multi-source output is a whole-line interleaving with correct attribution.

func init() {
	Drivers["C07"] = c07
}

func c07Line(host, file string, seq, length int) string {
	head := fmt.Sprintf("%s#%s#%d#%d#", host, file, seq, length)
	pad := ""
	if length > len(head)+9 {
		pad = strings.Repeat("p", length-len(head)-9)
		if seq%5 == 0 && len(pad) > 8 {
			// the field delimiter of the record format inside the line's own text
			pad = "p|p||" + pad[5:]
		}
	}
	body := head + pad
	return fmt.Sprintf("%s#%08x", body, crc32.ChecksumIEEE([]byte(body)))
}

type c07Rec struct {
	host, id, payloadHost, payloadFile string
	count, seq                         int
}

// c07ParseLine checks one stdout line. kind: "remote", "other" (complete
// CLIENT/SERVER record), or "" + error description.
func c07ParseLine(l string) (c07Rec, string, string) {
	var rec c07Rec
	if strings.HasPrefix(l, "CLIENT|") || strings.HasPrefix(l, "SERVER|") {
		return rec, "other", ""
	}
	if strings.HasPrefix(l, " Hint: Hit Ctrl+C again to exit") || strings.HasPrefix(l, " Connection stats: ") {
		return rec, "other", "" // the client's own lines after an interrupt signal
	}
	if !strings.HasPrefix(l, "REMOTE|") {
		return rec, "", "line is neither a REMOTE, SERVER nor CLIENT record"
	}
	parts := strings.SplitN(l, "|", 6)
	if len(parts) != 6 {
		return rec, "", "REMOTE record with fewer than 6 fields"
	}
	rec.host, rec.id = parts[1], parts[4]
	c, err := strconv.Atoi(strings.TrimSpace(parts[3]))
	if err != nil {
		return rec, "", "line number field is not a number"
	}
	rec.count = c
	if _, err := strconv.Atoi(strings.TrimSpace(parts[2])); err != nil {
		return rec, "", "percentage field is not a number"
	}
	payload := parts[5]
	f := strings.Split(payload, "#")
	if len(f) < 6 {
		return rec, "", "payload is not one whole source line (too few fields)"
	}
	crc := f[len(f)-1]
	body := strings.TrimSuffix(payload, "#"+crc)
	if fmt.Sprintf("%08x", crc32.ChecksumIEEE([]byte(body))) != crc {
		return rec, "", "payload checksum mismatch (line merged, truncated or interleaved below line level)"
	}
	rec.payloadHost, rec.payloadFile = f[0], f[1]
	rec.seq, _ = strconv.Atoi(f[2])
	wantLen, _ := strconv.Atoi(f[3])
	headLen := len(f[0]) + len(f[1]) + len(f[2]) + len(f[3]) + 4
	if wantLen > headLen+9 && len(payload) != wantLen {
		return rec, "", "payload length differs from the length recorded in the line"
	}
	return rec, "remote", ""
}

type c07Check struct {
	lines, remote, other, switches int
	idOf                           map[string]string // host/file -> sourceID
	lastSeq                        map[string]int
	err                            string
	errLine                        string
}

// c07CheckOutput applies the oracle to a whole stdout.
// In follow mode the running number counts the lines read since the follow
// began, so there it must differ from the line's own number by a constant.
func c07CheckOutput(out []byte, nonGlob bool, follow bool) *c07Check {
	offset := map[string]int{}
	ck := &c07Check{idOf: map[string]string{}, lastSeq: map[string]int{}}
	prev := ""
	text := string(out)
	if text != "" && !strings.HasSuffix(text, "\n") {
		ck.err, ck.errLine = "output does not end with a complete line", vlib.Trunc(text[strings.LastIndex(text, "\n")+1:], 200)
		return ck
	}
	for _, l := range strings.Split(strings.TrimSuffix(text, "\n"), "\n") {
		if l == "" {
			continue
		}
		ck.lines++
		rec, kind, why := c07ParseLine(l)
		if kind == "" {
			ck.err, ck.errLine = why, vlib.Trunc(l, 300)
			return ck
		}
		if kind == "other" {
			ck.other++
			continue
		}
		ck.remote++
		src := rec.payloadHost + "/" + rec.payloadFile
		fail := func(s string) *c07Check {
			ck.err, ck.errLine = s, vlib.Trunc(l, 300)
			return ck
		}
		if rec.host != rec.payloadHost {
			return fail(fmt.Sprintf("record labelled with host %q carries a line of host %q", rec.host, rec.payloadHost))
		}
		if follow {
			if off, ok := offset[src]; ok && rec.seq-rec.count != off {
				return fail(fmt.Sprintf("running number %d for line %d: offset to the line's number changed from %d to %d", rec.count, rec.seq, off, rec.seq-rec.count))
			}
			offset[src] = rec.seq - rec.count
		} else if rec.count != rec.seq {
			return fail(fmt.Sprintf("record carries line number %d but the line is number %d of its file", rec.count, rec.seq))
		}
		if id, ok := ck.idOf[src]; ok && id != rec.id {
			return fail(fmt.Sprintf("source %s labelled %q and %q", src, id, rec.id))
		}
		ck.idOf[src] = rec.id
		if nonGlob && rec.id != rec.payloadFile {
			return fail(fmt.Sprintf("file identifier %q for file %q", rec.id, rec.payloadFile))
		}
		if last, ok := ck.lastSeq[src]; ok && rec.seq <= last {
			return fail(fmt.Sprintf("source %s: line %d after line %d", src, rec.seq, last))
		}
		ck.lastSeq[src] = rec.seq
		if prev != "" && prev != src {
			ck.switches++
		}
		prev = src
	}
	// distinct files of a host must have distinct identifiers
	seen := map[string]string{}
	for src, id := range ck.idOf {
		host := src[:strings.Index(src, "/")]
		k := host + "|" + id
		if other, ok := seen[k]; ok && other != src {
			ck.err = fmt.Sprintf("sources %s and %s share the file identifier %q", src, other, id)
			return ck
		}
		seen[k] = src
	}
	return ck
}

func c07(r *vlib.Run) int {
	min := c07Body(r)
	if r.Tier == "thorough" || os.Getenv("VERIF_FORCE_RACE") != "" {
		// secondary monitor: the same workload (reduced) against -race builds
		r.RacePass([]string{"loggers.(*stdout)", "loggers.(*fout)", "clients/handlers.(*baseHandler)", "dlog.(*DLog)", "pool.", "line."}, func() { c07Body(r) })
	}
	return min
}

func c07Body(r *vlib.Run) int {
	r.Rule("dcat/dgrep (REMOTE records, --noColor) against 2-8 servers x 1-5 files each (comma list and glob), files of unequal size, lines " +
		"'<host>#<file>#<seq>#<len>#<pad>#<crc>' of length 40-200, 4095/4096, 32760-32780 and 100 000, paced stdout; plus dtail following " +
		"several files per server which receive bursts while the client reads slowly (lines may be dropped there, never damaged). Oracle " +
		"per output line: complete REMOTE/SERVER/CLIENT record; payload checksum and length verify; host label == the line's host; line " +
		"number == the line's number; file identifier constant per source, distinct between files of a host, == base name for non-glob " +
		"requests; per source strictly increasing numbers. distinct = distinct (servers, files, lengths, pacing) runs; non-trivial = at " +
		"least two sources and at least one switch between sources in the output.")
	r.Assume("missing lines are not judged here (C02/C04 own delivery); hosts are distinguished by DTAIL_HOSTNAME_OVERRIDE")
	n := r.N(36, 600)
	rng := r.Rng("runs")
	// fleets of different sizes, reused across runs
	sizes := []int{2, 3, 5, 8}
	fleets := make([]*fleet, len(sizes))
	for i, sz := range sizes {
		// two of the fleets have fully qualified host names
		domain := []string{"", ".lab.example.org", "", ".prod.dc1.example.com"}[i%4]
		fl, err := startFleetDomain(r, fmt.Sprintf("c07f%d", i), sz, map[string]interface{}{"MaxConcurrentCats": 8, "MaxConcurrentTails": 50, "MaxConnections": 50}, nil, "error", domain)
		if err != nil {
			r.Inconclusive("fleet-start")
			continue
		}
		defer fl.Stop()
		fleets[i] = fl
	}
	var fmu [4]sync.Mutex
	seeds := make([]int64, n)
	for i := range seeds {
		seeds[i] = rng.Int63()
	}
	vlib.Parallel(n, 8, func(i int) {
		fi := i % len(sizes)
		fl := fleets[fi]
		if fl == nil {
			return
		}
		crng := rand.New(rand.NewSource(seeds[i]))
		fmu[fi].Lock() // one run at a time per fleet: the data directories are shared
		defer fmu[fi].Unlock()
		switch {
		case (i/4)%3 == 2:
			c07TailRun(r, i, fl, crng)
		case (i/4)%3 == 1 && i%2 == 0:
			c07DirGlobRun(r, i, fl, crng)
		default:
			c07CatRun(r, i, fl, crng)
		}
	})
	// lines just below MaxLineLength (1 MiB): together with their record label
	// they are longer than any buffer sized after the line limit
	if fl := fleets[1]; fl != nil {
		for k := 0; k < r.N(2, 6); k++ {
			c07NearMaxRun(r, k, fl, rand.New(rand.NewSource(seeds[k%len(seeds)]+int64(k))))
		}
	}
	for k := 0; k < r.N(1, 4); k++ {
		c07OverLimitRun(r, k, rand.New(rand.NewSource(seeds[(k+7)%len(seeds)])))
	}
	return n / 2
}

// c07OverLimitRun: lines longer than the servers' MaxLineLength (4096 here).
// The server cuts such a line into pieces of MaxLineLength bytes and sends each
// piece as a record of its own (own running number, newline appended). The
// oracle re-assembles the pieces per source label: put together they must be
// exactly one line of that source, the running numbers advance by one per
// piece, and nothing of another source may sit between the bytes of a piece.
func c07OverLimitRun(r *vlib.Run, k int, rng *rand.Rand) {
	const M = 4096
	fl, err := startFleet(r, fmt.Sprintf("c07over%d", k), 3, map[string]interface{}{"MaxConcurrentCats": 8, "MaxConnections": 50, "MaxLineLength": M}, nil, "error")
	if err != nil {
		r.Inconclusive("fleet-start")
		return
	}
	defer fl.Stop()
	sub := "over"
	for s := range fl.Servers {
		for f := 0; f < 2; f++ {
			var b bytes.Buffer
			name := fmt.Sprintf("f%d.log", f)
			for q := 1; q <= 120; q++ {
				l := 40 + rng.Intn(160)
				if q%15 == 3+s {
					l = []int{M + 1, M + 900, 2*M + 5, 3*M - 1, 2 * M, 5000, 13000}[rng.Intn(7)]
				}
				b.WriteString(c07Line(fl.Servers[s].Spec.Name, name, q, l))
				b.WriteByte('\n')
			}
			fl.WriteFile(s, filepath.Join(sub, name), b.Bytes())
		}
	}
	glob := k%2 == 0
	filesArg := filepath.Join(sub, "f0.log") + "," + filepath.Join(sub, "f1.log")
	if glob {
		filesArg = filepath.Join(sub, "*.log")
	}
	full := append(fl.ClientArgs(), "--logger", "stdout", "--logLevel", "error", "--noColor", "--files", filesArg)
	res, out := runPaced(vlib.Cmd{Path: r.Bin("dcat"), Args: full, Env: fl.ClientEnv(), Dir: fl.Home, Watchdog: 240 * time.Second}, pacing{Kind: "fast"}, 65536)
	r.Eval(fmt.Sprintf("overlimit|%d|%v", k, glob))
	r.Count("runs_with_lines_longer_than_the_line_limit", 1)
	if res.TimedOut {
		r.Inconclusive("client-watchdog")
		return
	}
	text := string(out)
	why, where := "", ""
	if text != "" && !strings.HasSuffix(text, "\n") {
		if !glob {
			if r.Known("c07.cmd-race-tail", "multi-command session: the client exits while a line of a later command is being printed (same root cause as c02.cmd-race)") {
				return
			}
		}
		why = "output does not end with a complete line"
	}
	type acc struct {
		buf    string
		pieces int
		first  int // running number of the first piece
	}
	pending := map[string]*acc{}
	extra := map[string]int{}   // pieces beyond one per line, so far, per source
	lastSeq := map[string]int{} // per source
	exactMultiple := map[string]string{}
	whole, assembled := 0, 0
	for _, l := range strings.Split(strings.TrimSuffix(text, "\n"), "\n") {
		if why != "" {
			break
		}
		if l == "" || strings.HasPrefix(l, "SERVER|") || strings.HasPrefix(l, "CLIENT|") {
			continue
		}
		parts := strings.SplitN(l, "|", 6)
		if len(parts) != 6 || parts[0] != "REMOTE" {
			why, where = "line is not a REMOTE record", l
			break
		}
		count, cerr := strconv.Atoi(strings.TrimSpace(parts[3]))
		if cerr != nil {
			why, where = "line number field is not a number", l
			break
		}
		label := parts[1] + "/" + parts[4]
		if src, ok := exactMultiple[label]; ok && pending[label] == nil {
			delete(exactMultiple, label)
			if parts[5] == "" {
				// the terminator of a line whose length is an exact multiple of
				// the limit arrives as an empty piece of its own
				extra[src]++
				continue
			}
		}
		a := pending[label]
		if a == nil {
			a = &acc{first: count}
			pending[label] = a
		} else if count != a.first+a.pieces {
			why, where = fmt.Sprintf("piece %d of a long line carries running number %d, the first piece had %d", a.pieces+1, count, a.first), l
			break
		}
		a.buf += parts[5]
		a.pieces++
		rec, kind, _ := c07ParseLine("REMOTE|" + parts[1] + "|" + parts[2] + "|" + parts[3] + "|" + parts[4] + "|" + a.buf)
		if kind != "remote" {
			if len(parts[5]) != M || a.pieces > 5 {
				why, where = "record is neither a whole line nor a full-size piece of one (pieces of one source put together do not form a line)", l
				break
			}
			continue // more pieces to come
		}
		delete(pending, label)
		if a.pieces > 1 {
			assembled++
		} else {
			whole++
		}
		src := rec.payloadHost + "/" + rec.payloadFile
		switch {
		case rec.host != rec.payloadHost:
			why = fmt.Sprintf("record labelled with host %q carries a line of host %q", rec.host, rec.payloadHost)
		case !glob && rec.id != rec.payloadFile:
			why = fmt.Sprintf("file identifier %q for file %q", rec.id, rec.payloadFile)
		case a.first-rec.seq != extra[src]:
			why = fmt.Sprintf("line %d of %s starts at running number %d: %d pieces beyond one per line were delivered before it, so %d was expected", rec.seq, src, a.first, extra[src], rec.seq+extra[src])
		case rec.seq <= lastSeq[src]:
			why = fmt.Sprintf("source %s: line %d after line %d", src, rec.seq, lastSeq[src])
		}
		if why != "" {
			where = l
			break
		}
		extra[src] += a.pieces - 1
		lastSeq[src] = rec.seq
		if len(a.buf)%M == 0 {
			exactMultiple[label] = src
		}
	}
	if why == "" && len(pending) > 0 {
		for label, a := range pending {
			why, where = fmt.Sprintf("pieces of a long line of %s were never completed (%d pieces, %d bytes)", label, a.pieces, len(a.buf)), vlib.Trunc(a.buf, 120)
			break
		}
	}
	r.Count("lines_checked", whole+assembled)
	r.Count("long_lines_reassembled_from_pieces", assembled)
	if why != "" || res.Panicked() {
		r.Violation("output-line-invalid", map[string]interface{}{"why": why, "line": vlib.Trunc(where, 300), "servers": len(fl.Servers), "max_line_length": M,
			"scenario": "lines longer than MaxLineLength: pieces re-assembled per source", "glob": glob, "exit": res.Exit, "stderr": vlib.Trunc(string(res.Stderr), 1000)})
	}
}

// c07NearMaxRun: every server delivers files in which a few lines are 2-300
// bytes shorter than MaxLineLength (the server does not split them), between
// short lines; all servers deliver at the same time.
func c07NearMaxRun(r *vlib.Run, k int, fl *fleet, rng *rand.Rand) {
	const M = 1024 * 1024
	sub := fmt.Sprintf("nearmax%d", k)
	nFiles := 2
	for s := range fl.Servers {
		for f := 0; f < nFiles; f++ {
			var b bytes.Buffer
			name := fmt.Sprintf("f%d.log", f)
			for q := 1; q <= 60; q++ {
				l := 40 + rng.Intn(160)
				if q%20 == 7+s {
					l = M - 2 - []int{0, 1, 30, 300}[rng.Intn(4)]
				}
				b.WriteString(c07Line(fl.Servers[s].Spec.Name, name, q, l))
				b.WriteByte('\n')
			}
			fl.WriteFile(s, filepath.Join(sub, name), b.Bytes())
		}
	}
	defer func() {
		for s := range fl.Servers {
			os.RemoveAll(filepath.Join(fl.Servers[s].Spec.Dir, sub))
		}
	}()
	glob := k%2 == 0
	filesArg := filepath.Join(sub, "f0.log") + "," + filepath.Join(sub, "f1.log")
	if glob {
		filesArg = filepath.Join(sub, "*.log")
	}
	full := append(fl.ClientArgs(), "--logger", "stdout", "--logLevel", "error", "--noColor", "--files", filesArg)
	res, out := runPaced(vlib.Cmd{Path: r.Bin("dcat"), Args: full, Env: fl.ClientEnv(), Dir: fl.Home, Watchdog: 240 * time.Second}, pacing{Kind: "fast"}, 65536)
	if res.TimedOut {
		r.Inconclusive("client-watchdog")
		return
	}
	ck := c07CheckOutput(out, !glob, false)
	r.Eval(fmt.Sprintf("nearmax|%d|%v", k, glob))
	r.Count("lines_checked", ck.remote)
	r.Count("runs_with_lines_just_below_the_line_limit", 1)
	if ck.err == "output does not end with a complete line" && !glob && !res.Panicked() {
		if r.Known("c07.cmd-race-tail", "multi-command session: the client exits while a line of a later command is being printed (same root cause as c02.cmd-race)") {
			return
		}
	}
	if ck.err != "" || res.Panicked() {
		r.Violation("output-line-invalid", map[string]interface{}{"why": ck.err, "line": ck.errLine, "servers": len(fl.Servers),
			"scenario": "lines 2-300 bytes shorter than MaxLineLength from all servers at once", "glob": glob, "exit": res.Exit, "stderr": vlib.Trunc(string(res.Stderr), 1000)})
	}
}

// c07DirGlobRun: files with the same base name in different directories,
// requested by a glob with a wildcard directory, spelt in several equivalent
// ways; the file identifier must tell the files of a host apart.
func c07DirGlobRun(r *vlib.Run, i int, fl *fleet, rng *rand.Rand) {
	nDirs := 2 + rng.Intn(4)
	sub := fmt.Sprintf("dg%d", i)
	for s := range fl.Servers {
		for d := 0; d < nDirs; d++ {
			var b bytes.Buffer
			name := fmt.Sprintf("web%d", d)
			for q := 1; q <= 50+rng.Intn(400); q++ {
				b.WriteString(c07Line(fl.Servers[s].Spec.Name, name, q, 60+rng.Intn(100)))
				b.WriteByte('\n')
			}
			fl.WriteFile(s, filepath.Join(sub, name, "app.log"), b.Bytes())
		}
	}
	defer func() {
		for s := range fl.Servers {
			os.RemoveAll(filepath.Join(fl.Servers[s].Spec.Dir, sub))
		}
	}()
	spellings := []string{sub + "/*/app.log", sub + "//*/app.log", "./" + sub + "/*/app.log", sub + "/web0/../*/app.log",
		sub + "/./*/app.log", sub + "/*/app.log/", sub + "/web*/app.log", sub + "/*/*.log"}
	spelling := spellings[rng.Intn(len(spellings))]
	full := append(fl.ClientArgs(), "--logger", "stdout", "--logLevel", "error", "--noColor", "--files", spelling)
	res := vlib.RunCmd(vlib.Cmd{Path: r.Bin("dcat"), Args: full, Env: fl.ClientEnv(), Dir: fl.Home, Watchdog: 240 * time.Second})
	if res.TimedOut {
		r.Inconclusive("client-watchdog")
		return
	}
	ck := c07CheckOutput(res.Stdout, false, false)
	key := ""
	if len(ck.idOf) >= 2 {
		key = fmt.Sprintf("dirglob|%d|%d|%s", len(fl.Servers), nDirs, spelling)
	}
	r.Eval(key)
	r.SetAdd("glob_spelling", strings.Replace(spelling, sub, "<dir>", 1))
	r.Count("lines_checked", ck.remote)
	r.Count("dirglob_runs", 1)
	if ck.err != "" || res.Panicked() || res.Hung {
		r.Violation("output-line-invalid", map[string]interface{}{"why": ck.err, "line": ck.errLine, "servers": len(fl.Servers),
			"glob": spelling, "dirs_per_server": nDirs, "exit": res.Exit, "hung": res.Hung, "stderr": vlib.Trunc(string(res.Stderr), 1000)})
		return
	}
	if ck.remote > 0 && len(ck.idOf) != len(fl.Servers)*nDirs {
		// not this property's business (delivery), but note it
		r.Count("dirglob_runs_with_missing_sources", 1)
	}
}

func c07CatRun(r *vlib.Run, i int, fl *fleet, rng *rand.Rand) {
	nFiles := 1 + rng.Intn(5)
	glob := nFiles > 1 && rng.Intn(2) == 0
	mode := []string{"cat", "cat", "grep"}[rng.Intn(3)]
	lens := []int{40, 80, 200, 4095, 4096, 32760, 32768, 32780, 100000}
	sub := fmt.Sprintf("data%d", i)
	total := 0
	for s := range fl.Servers {
		for f := 0; f < nFiles; f++ {
			var b bytes.Buffer
			lines := []int{1, 10, 100, 1000, 5000}[rng.Intn(5)]
			name := fmt.Sprintf("f%d.log", f)
			for q := 1; q <= lines; q++ {
				l := 40 + rng.Intn(160)
				if rng.Intn(60) == 0 {
					l = lens[rng.Intn(len(lens))]
				}
				b.WriteString(c07Line(fl.Servers[s].Spec.Name, name, q, l))
				b.WriteByte('\n')
			}
			total += b.Len()
			fl.WriteFile(s, filepath.Join(sub, name), b.Bytes())
		}
	}
	defer func() {
		for s := range fl.Servers {
			os.RemoveAll(filepath.Join(fl.Servers[s].Spec.Dir, sub))
		}
	}()
	var files []string
	for f := 0; f < nFiles; f++ {
		files = append(files, filepath.Join(sub, fmt.Sprintf("f%d.log", f)))
	}
	filesArg := strings.Join(files, ",")
	if glob {
		filesArg = filepath.Join(sub, "*.log")
	}
	bin := "dcat"
	args := []string{"--noColor", "--files", filesArg}
	coloured := i%4 == 1
	if coloured {
		args = []string{"--files", filesArg} // the default: colours on; judged after removing the SGR sequences
	}
	if mode == "grep" {
		bin = "dgrep"
		args = append(args, "--regex", "#[0-9]*[05]#") // lines whose number ends in 0 or 5
		// context lines are lines of the same source, too: same oracle
		switch rng.Intn(4) {
		case 0:
			args = append(args, "--before", fmt.Sprint(1+rng.Intn(3)))
		case 1:
			args = append(args, "--after", fmt.Sprint(1+rng.Intn(3)))
		case 2:
			args = append(args, "--before", "2", "--after", "1")
		}
	}
	var p pacing
	switch rng.Intn(4) {
	case 0:
		p = pacing{Kind: "fast"}
	case 1:
		p = pacing{Kind: "slow", Chunk: 4096, DelayMs: 1}
	case 2:
		p = pacing{Kind: "slow", Chunk: 65536, DelayMs: 5}
	default:
		p = pacing{Kind: "stall", StallAt: int64(total / 3), StallS: 1}
	}
	full := append(fl.ClientArgs(), "--logger", "stdout", "--logLevel", "error")
	full = append(full, args...)
	res, out := runPaced(vlib.Cmd{Path: r.Bin(bin), Args: full, Env: fl.ClientEnv(), Dir: fl.Home, Watchdog: 240 * time.Second}, p, 65536)
	if res.TimedOut {
		r.Inconclusive("client-watchdog")
		return
	}
	if coloured {
		out = []byte(stripSGR(string(out)))
		r.Count("runs_with_colours_on", 1)
	}
	ck := c07CheckOutput(out, !glob, false)
	key := ""
	if len(ck.idOf) >= 2 && ck.switches > 0 {
		key = fmt.Sprintf("cat|%d|%d|%v|%s|%s|%d", len(fl.Servers), nFiles, glob, mode, p.Kind, total)
	}
	r.Eval(key)
	r.Count("lines_checked", ck.remote)
	r.Count("source_switches_observed", ck.switches)
	r.Max("max_concurrent_sources", len(ck.idOf))
	r.Count("server_or_client_records", ck.other)
	if i < 3 {
		r.Sample(map[string]interface{}{"servers": len(fl.Servers), "files_per_server": nFiles, "glob": glob, "mode": mode, "pacing": p,
			"lines": ck.remote, "sources": len(ck.idOf), "switches": ck.switches})
	}
	if ck.err == "output does not end with a complete line" && !glob && nFiles > 1 && !res.Panicked() {
		// several files as a comma list = several commands in one session: the
		// recorded finding c02.cmd-race lets the client leave while lines of a
		// later command are still being printed; the cut happens at the very end.
		if r.Known("c07.cmd-race-tail", "multi-command session: the client exits while a line of a later command is being printed (same root cause as c02.cmd-race)") {
			return
		}
	}
	if ck.err != "" || res.Panicked() {
		r.Violation("output-line-invalid", map[string]interface{}{"why": ck.err, "line": ck.errLine, "servers": len(fl.Servers),
			"files_per_server": nFiles, "glob": glob, "mode": mode, "pacing": p, "exit": res.Exit, "stderr": vlib.Trunc(string(res.Stderr), 1000)})
	}
}

// c07TailRun: dtail follows several files per server; writers append bursts
// while the client's stdout is read slowly, so the servers' queues overflow.
func c07TailRun(r *vlib.Run, i int, fl *fleet, rng *rand.Rand) {
	nFiles := 2 + rng.Intn(3)
	sub := fmt.Sprintf("tail%d", i)
	var fds [][]*os.File
	for s := range fl.Servers {
		var row []*os.File
		for f := 0; f < nFiles; f++ {
			p := fl.WriteFile(s, filepath.Join(sub, fmt.Sprintf("t%d.log", f)), []byte("old content\n"))
			fd, _ := os.OpenFile(p, os.O_APPEND|os.O_WRONLY, 0644)
			row = append(row, fd)
		}
		fds = append(fds, row)
	}
	defer func() {
		for s := range fds {
			for _, fd := range fds[s] {
				fd.Close()
			}
			os.RemoveAll(filepath.Join(fl.Servers[s].Spec.Dir, sub))
		}
	}()
	glob := rng.Intn(2) == 0
	var files []string
	for f := 0; f < nFiles; f++ {
		files = append(files, filepath.Join(sub, fmt.Sprintf("t%d.log", f)))
	}
	filesArg := strings.Join(files, ",")
	if glob {
		filesArg = filepath.Join(sub, "*.log")
	}
	// half of the follows are interrupted once (Ctrl+C): the client prints its
	// connection stats, holds its output back for 3 s and resumes while the
	// sources are still delivering
	interrupt := rng.Intn(2) == 0
	shutdown := "7"
	rounds := 8
	if interrupt {
		shutdown, rounds = "10", 26
	}
	full := append(fl.ClientArgs(), "--logger", "stdout", "--logLevel", "error", "--noColor", "--shutdownAfter", shutdown, "--files", filesArg)
	stop := make(chan struct{})
	var wg sync.WaitGroup
	burst := 150 + rng.Intn(400)
	for s := range fds {
		for f := range fds[s] {
			wg.Add(1)
			go func(s, f int) {
				defer wg.Done()
				seq := 1 // "old content" is line 1 of the file
				time.Sleep(1500 * time.Millisecond)
				name := fmt.Sprintf("t%d.log", f)
				for round := 0; round < rounds; round++ {
					var b bytes.Buffer
					for k := 0; k < burst; k++ {
						seq++
						b.WriteString(c07Line(fl.Servers[s].Spec.Name, name, seq, 60+(seq%120)))
						b.WriteByte('\n')
					}
					if f == 0 {
						// this file's writer is block-buffered: its writes end in the middle of a line and the rest
						// of the line follows a quarter of a second later (the follower polls in between)
						cut := b.Len() - 6 - seq%50
						fds[s][f].Write(b.Bytes()[:cut])
						time.Sleep(260 * time.Millisecond)
						fds[s][f].Write(b.Bytes()[cut:])
					} else {
						fds[s][f].Write(b.Bytes())
					}
					select {
					case <-stop:
						return
					case <-time.After(time.Duration(200+50*f) * time.Millisecond):
					}
				}
			}(s, f)
		}
	}
	p := pacing{Kind: "slow", Chunk: 2048, DelayMs: 2}
	cmd := vlib.Cmd{Path: r.Bin("dtail"), Args: full, Env: fl.ClientEnv(), Dir: fl.Home, Watchdog: 120 * time.Second}
	if interrupt {
		// moderately slow: what the client holds back during its pause takes a
		// while to print, the sources keep delivering meanwhile
		p = pacing{Kind: "slow", Chunk: 4096, DelayMs: 1}
	}
	var pidMu sync.Mutex
	childPid := 0
	if interrupt {
		go func() {
			time.Sleep(3200 * time.Millisecond)
			pidMu.Lock()
			pid := childPid
			pidMu.Unlock()
			if pid > 0 {
				syscall.Kill(pid, syscall.SIGINT)
			}
		}()
	}
	res, out := runPacedPid(cmd, p, 4096, func(pid int) { pidMu.Lock(); childPid = pid; pidMu.Unlock() })
	close(stop)
	wg.Wait()
	if res.TimedOut {
		r.Inconclusive("dtail-watchdog")
		return
	}
	// dtail may be cut in the middle of a line when it shuts down: judge complete lines only
	if k := bytes.LastIndexByte(out, '\n'); k >= 0 {
		out = out[:k+1]
	} else {
		out = nil
	}
	ck := c07CheckOutput(out, !glob, true)
	key := ""
	if len(ck.idOf) >= 2 && ck.switches > 0 {
		key = fmt.Sprintf("tail|%d|%d|%v|%d", len(fl.Servers), nFiles, glob, burst)
	}
	r.Eval(key)
	r.Count("tail_lines_checked", ck.remote)
	r.Count("source_switches_observed", ck.switches)
	expected := len(fl.Servers) * nFiles * rounds * burst
	if interrupt {
		r.Count("tail_runs_interrupted", 1)
		if bytes.Contains(out, []byte(" Hint: Hit Ctrl+C again")) {
			r.Count("tail_runs_interrupt_seen_in_output", 1)
			// lines delivered after the client resumed its output?
			if k := bytes.Index(out, []byte(" Connection stats: ")); k >= 0 && bytes.Count(out[k:], []byte("\nREMOTE|")) > 10 {
				r.Count("tail_runs_resumed_while_sources_deliver", 1)
			}
		}
	}
	if ck.remote < expected {
		r.Count("tail_runs_with_dropped_lines", 1)
	}
	r.Max("max_concurrent_sources", len(ck.idOf))
	if ck.err != "" || res.Panicked() {
		r.Violation("tail-output-line-invalid", map[string]interface{}{"why": ck.err, "line": ck.errLine, "servers": len(fl.Servers),
			"files_per_server": nFiles, "glob": glob, "burst": burst, "exit": res.Exit, "stderr": vlib.Trunc(string(res.Stderr), 1500)})
	}
}
