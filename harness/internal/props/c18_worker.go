//go:build w_c18

package props

import (
	"encoding/json"
	"fmt"
	"github.com/mimecast/dtail/internal/discovery"
	"github.com/mimecast/dtail/internal/source"
	"github.com/mimecast/dtail/verifharness/internal/dt"
	"github.com/mimecast/dtail/verifharness/internal/vlib"
	"os"
	"path/filepath"
	"strings"
)

func init() {
	Children["c18api"] = c18Child
}

func c18Child(args []string) int {
	dir := args[0]
	dt.Init(source.Client, "none", "none", "error", true)
	return vlib.BatchMain(dir, func(i int, raw json.RawMessage) (out interface{}) {
		var c c18Case
		json.Unmarshal(raw, &c)
		res := c18Result{}
		defer func() {
			if p := recover(); p != nil {
				res.Panic = fmt.Sprint(p)
				out = res
			}
		}()
		nl := "\n"
		if c.CRLF {
			nl = "\r\n"
		}
		body := strings.Join(c.Entries, nl)
		if c.FinalNL && len(c.Entries) > 0 {
			body += nl
		}
		var d *discovery.Discovery
		switch c.Kind {
		case "comma":
			d = discovery.New("", strings.Join(c.Entries, ","), discovery.Shuffle)
		case "file":
			p := filepath.Join(dir, fmt.Sprintf("servers-%d.txt", i))
			os.WriteFile(p, []byte(body), 0644)
			defer os.Remove(p)
			d = discovery.New("", p, discovery.Shuffle)
		case "module":
			p := filepath.Join(dir, fmt.Sprintf("servers-%d.txt", i))
			os.WriteFile(p, []byte(body), 0644)
			defer os.Remove(p)
			d = discovery.New("veriffile:"+p, "/"+c.Regex+"/", discovery.Shuffle)
		}
		res.List = d.ServerList()
		if res.List == nil {
			res.List = []string{}
		}
		// the same source discovered again in the same process (scheduled and
		// continuous server jobs do this): every discovery must be right
		if c.Again > 0 {
			for k := 0; k < c.Again; k++ {
				var d2 *discovery.Discovery
				switch c.Kind {
				case "comma":
					d2 = discovery.New("", strings.Join(c.Entries, ","), discovery.Shuffle)
				case "file":
					d2 = discovery.New("", filepath.Join(dir, fmt.Sprintf("servers-%d.txt", i)), discovery.Shuffle)
				case "module":
					d2 = discovery.New("veriffile:"+filepath.Join(dir, fmt.Sprintf("servers-%d.txt", i)), "/"+c.Regex+"/", discovery.Shuffle)
				}
				l := d2.ServerList()
				if k%2 == 1 {
					l = d.ServerList() // and the same object asked twice
				}
				if l == nil {
					l = []string{}
				}
				res.Again = append(res.Again, l)
			}
		}
		return res
	})
}
