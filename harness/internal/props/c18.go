package props

import (
	"encoding/json"
	"fmt"
	"math/rand"
	"os"
	"regexp"
	"runtime"
	"sort"
	"strings"
	"sync"
	"time"

	"github.com/mimecast/dtail/verifharness/internal/vlib"
)

// C18 — server discovery yields each wanted server exactly once.

type c18Case struct {
	Kind    string   `json:"kind"` // comma | file | module
	Entries []string `json:"entries"`
	Regex   string   `json:"regex,omitempty"`
	CRLF    bool     `json:"crlf,omitempty"`
	FinalNL bool     `json:"final_nl,omitempty"`
	Pattern string   `json:"pattern"`         // how duplicates were laid out
	Again   int      `json:"again,omitempty"` // rediscoveries in the same process
}

var mu sync.Mutex

type c18Result struct {
	List  []string   `json:"list"`
	Again [][]string `json:"again,omitempty"`
	Panic string     `json:"panic,omitempty"`
}

func init() {
	Drivers["C18"] = c18
}

func c18Expected(c c18Case) []string {
	var re *regexp.Regexp
	if c.Regex != "" {
		re = regexp.MustCompile(c.Regex)
	}
	seen := map[string]bool{}
	var out []string
	for _, e := range c.Entries {
		if re != nil && !re.MatchString(e) {
			continue
		}
		if !seen[e] {
			seen[e] = true
			out = append(out, e)
		}
	}
	sort.Strings(out)
	return out
}

func c18GenEntries(rng *rand.Rand) ([]string, string) {
	domains := []string{"", ".example.com", ".lan", ".prod.example.org"}
	mk := func() string {
		var s string
		switch rng.Intn(6) {
		case 0:
			s = fmt.Sprintf("%d.%d.%d.%d", 10+rng.Intn(3), rng.Intn(4), rng.Intn(4), 1+rng.Intn(20))
		case 1:
			s = fmt.Sprintf("db%02d%s", rng.Intn(30), domains[rng.Intn(len(domains))])
		case 2:
			s = fmt.Sprintf("WEB%d%s", rng.Intn(30), domains[rng.Intn(len(domains))])
		default:
			s = fmt.Sprintf("web%d%s", rng.Intn(40), domains[rng.Intn(len(domains))])
		}
		if rng.Intn(4) == 0 {
			s += fmt.Sprintf(":%d", []int{22, 2222, 2223, 10022}[rng.Intn(4)])
		}
		return s
	}
	sizes := []int{0, 1, 2, 3, 5, 8, 13, 40, 200, 1200, 5000}
	n := sizes[rng.Intn(len(sizes))]
	if n > 200 && rng.Intn(3) != 0 {
		n = rng.Intn(60)
	}
	var ents []string
	pattern := "none"
	switch rng.Intn(7) {
	case 0: // no deliberate duplicates
		for i := 0; i < n; i++ {
			ents = append(ents, fmt.Sprintf("%s-u%d", mk(), i))
		}
	case 1: // adjacent duplicates
		pattern = "adjacent"
		for len(ents) < n {
			e := mk()
			for k := 0; k <= rng.Intn(3) && len(ents) < n; k++ {
				ents = append(ents, e)
			}
		}
	case 2: // distant duplicates: list followed by a shuffled copy of a part
		pattern = "distant"
		for i := 0; i < (n+1)/2; i++ {
			ents = append(ents, mk())
		}
		cp := append([]string(nil), ents...)
		rng.Shuffle(len(cp), func(i, j int) { cp[i], cp[j] = cp[j], cp[i] })
		ents = append(ents, cp[:len(cp)-rng.Intn(len(cp)+1)/2]...)
	case 3: // all equal
		pattern = "allequal"
		e := mk()
		for i := 0; i < n; i++ {
			ents = append(ents, e)
		}
	case 4: // a,b,a / sandwich
		pattern = "sandwich"
		for i := 0; i < n; i++ {
			ents = append(ents, mk())
		}
		if len(ents) > 0 {
			ents = append(ents, ents[0])
			ents = append([]string{ents[len(ents)/2]}, ents...)
		}
	default: // random draws from a small pool => many collisions
		pattern = "pool"
		for i := 0; i < n; i++ {
			ents = append(ents, mk())
		}
	}
	return ents, pattern
}

func c18Gen(rng *rand.Rand) c18Case {
	ents, pattern := c18GenEntries(rng)
	c := c18Case{Entries: ents, Pattern: pattern}
	switch rng.Intn(3) {
	case 0:
		c.Kind = "comma"
		// An empty comma list is not a list ("" means serverless); use >= 1 entry.
		if len(c.Entries) == 0 {
			c.Entries = []string{"solo1"}
		}
	case 1:
		c.Kind = "file"
		c.CRLF = rng.Intn(4) == 0
		c.FinalNL = rng.Intn(3) != 0
	default:
		c.Kind = "module"
		c.CRLF = rng.Intn(6) == 0
		c.FinalNL = rng.Intn(3) != 0
		res := []string{"web", "^db", `\.example\.com`, "[0-9]+$", ":2222$", ".", "web1|db0", "(?i)^web", "^$", `^[^:]+$`, "zzz-nomatch"}
		c.Regex = res[rng.Intn(len(res))]
	}
	if len(c.Entries) == 0 {
		c.FinalNL = false
	}
	if rng.Intn(3) == 0 {
		c.Again = 1 + rng.Intn(3)
	}
	return c
}

func c18(r *vlib.Run) int {
	r.Rule("seeded generator of server lists (comma list / server file / plug-in module list + /regex/ filter) " +
		"with duplicate layouts {none, adjacent, distant, all-equal, sandwich, pool}; a case is non-trivial if the list " +
		"has >= 2 entries; distinct = distinct (kind, regex, entries) tuples. Oracle: result sorted == sorted distinct " +
		"entries matching the regex (Go regexp).")
	r.Assume("blank entries and entries with surrounding blanks are not generated (the statement does not define them)")
	r.Assume("the /regex/ filter is exercised through the verif-tagged plug-in module VERIFFILE because this build's CLI cannot combine a list with a filter")
	n := r.N(6000, 400000)
	rng := r.Rng("api")
	cases := make([]interface{}, n)
	typed := make([]c18Case, n)
	for i := range cases {
		typed[i] = c18Gen(rng)
		cases[i] = typed[i]
	}
	results, crashes := r.RunBatches("c18api", cases, 500, 14, nil, nil)
	for _, cr := range crashes {
		r.Violation("worker-crash", map[string]interface{}{"case": typed[cr.Any()], "stderr": vlib.Trunc(string(cr.Result.Stderr), 3000)})
	}
	for i, raw := range results {
		if raw == nil {
			continue
		}
		c := typed[i]
		var res c18Result
		json.Unmarshal(raw, &res)
		key := ""
		if len(c.Entries) >= 2 {
			key = fmt.Sprintf("%s|%s|%x", c.Kind, c.Regex, hashStrings(c.Entries))
		}
		r.Eval(key)
		r.SetAdd("layout", c.Kind+"/"+c.Pattern)
		r.SetAdd("sizeclass", sizeClass(len(c.Entries)))
		if i < 4 {
			r.Sample(map[string]interface{}{"kind": c.Kind, "regex": c.Regex, "pattern": c.Pattern,
				"entries": clipStrings(c.Entries, 8), "n_entries": len(c.Entries), "result": clipStrings(res.List, 8)})
		}
		if res.Panic != "" {
			r.Violation("panic", map[string]interface{}{"case": c, "panic": res.Panic})
			continue
		}
		got := append([]string(nil), res.List...)
		sort.Strings(got)
		want := c18Expected(c)
		if !equalStrings(got, want) {
			r.Violation("list-mismatch", map[string]interface{}{
				"case": c, "got": clipStrings(got, 50), "want": clipStrings(want, 50),
				"got_len": len(got), "want_len": len(want)})
		}
		for k, l := range res.Again {
			g := append([]string(nil), l...)
			sort.Strings(g)
			r.Count("rediscoveries_checked", 1)
			if !equalStrings(g, want) {
				r.Violation("rediscovery-list-mismatch", map[string]interface{}{"case": c, "rediscovery": k + 1,
					"got": clipStrings(g, 50), "want": clipStrings(want, 50), "got_len": len(g), "want_len": len(want)})
				break
			}
		}
		if len(want) < len(c.Entries) {
			r.Count("cases_with_duplicates_or_filtered", 1)
		}
	}
	c18E2E(r)
	c18Reconnect(r)
	c18ManyLongLived(r)
	c18DeadServers(r)
	return n / 2
}

// c18DeadServers: most of the listed servers are down (connection refused),
// many more of them than the client attempts at a time (--cpc 1). The servers
// that are up are still contacted, each once, and the client ends.
func c18DeadServers(r *vlib.Run) {
	key, err := vlib.GenKey("ed25519")
	if err != nil {
		r.Inconclusive("keygen")
		return
	}
	hk := vlib.HostKey()
	hkFile := r.Dir("c18dead") + "/hostkey.pem"
	os.WriteFile(hkFile, hk.PEM, 0600)
	for round := 0; round < r.N(1, 4); round++ {
		nDead, nUp := 2*runtime.NumCPU()+8, 4
		seen := map[int]bool{}
		var up, dead []int
		for len(up) < nUp || len(dead) < nDead {
			p := vlib.FreePort()
			if p == 0 || seen[p] {
				continue
			}
			seen[p] = true
			if len(up) < nUp {
				up = append(up, p)
			} else {
				dead = append(dead, p)
			}
		}
		f, err := startFakeSSHD(r, fmt.Sprintf("c18dead-%d", round), up, []string{hkFile}, "", 100)
		if err != nil {
			r.Inconclusive("fakesshd")
			return
		}
		var list []string
		for _, p := range append(append([]int(nil), dead...), up...) {
			list = append(list, fmt.Sprintf("127.0.0.1:%d", p))
		}
		home, keyFile := r.ClientHome(fmt.Sprintf("c18dead-%d", round), key)
		args := []string{"--cfg", "none", "--noColor", "--trustAllHosts", "--key", keyFile, "--user", "tester", "--cpc", "1",
			"--logger", "stdout", "--logLevel", "error", "--files", "/etc/hostname", "--servers", strings.Join(list, ",")}
		res := vlib.RunCmd(vlib.Cmd{Path: r.Bin("dcat"), Args: args, Env: []string{"HOME=" + home}, Dir: home, Watchdog: 120 * time.Second})
		shells := map[int]int{}
		for _, e := range f.Events() {
			if e.Ev == "shell" {
				shells[e.Port]++
			}
		}
		f.Stop()
		os.RemoveAll(home)
		r.Eval(fmt.Sprintf("dead|%d|%d", nDead, nUp))
		r.Count("runs_with_most_servers_down", 1)
		if res.TimedOut {
			r.Inconclusive("dcat-watchdog")
			continue
		}
		bad := 0
		for _, p := range up {
			if shells[p] != 1 {
				bad++
			}
		}
		r.Count("live_servers_contacted_among_dead_ones", len(shells))
		if bad > 0 || res.Hung {
			r.Violation("servers-not-contacted-once-when-others-are-down", map[string]interface{}{"dead_servers": nDead, "live_servers": nUp, "cpus": runtime.NumCPU(),
				"live_servers_not_contacted_exactly_once": bad, "contacts": fmt.Sprint(shells), "client_hung": res.Hung, "exit": res.Exit})
		}
	}
}

// c18ManyLongLived: more servers than the client connects to at a time
// (--cpc 1: one connection attempt per CPU at a time), each holding its session
// open (a follow). Every listed server has to be contacted although the
// sessions of the first ones never end.
func c18ManyLongLived(r *vlib.Run) {
	key, err := vlib.GenKey("ed25519")
	if err != nil {
		r.Inconclusive("keygen")
		return
	}
	hk := vlib.HostKey()
	hkFile := r.Dir("c18many") + "/hostkey.pem"
	os.WriteFile(hkFile, hk.PEM, 0600)
	for round := 0; round < r.N(1, 4); round++ {
		k := runtime.NumCPU() + 5 + 3*round
		var ports []int
		seen := map[int]bool{}
		for len(ports) < k {
			p := vlib.FreePort()
			if p != 0 && !seen[p] {
				seen[p] = true
				ports = append(ports, p)
			}
		}
		f, err := startFakeSSHD(r, fmt.Sprintf("c18many-%d", round), ports, []string{hkFile}, "", -1)
		if err != nil {
			r.Inconclusive("fakesshd")
			return
		}
		var list []string
		for _, p := range ports {
			list = append(list, fmt.Sprintf("127.0.0.1:%d", p))
		}
		home, keyFile := r.ClientHome(fmt.Sprintf("c18many-%d", round), key)
		args := []string{"--cfg", "none", "--noColor", "--trustAllHosts", "--key", keyFile, "--user", "tester", "--cpc", "1",
			"--logger", "stdout", "--logLevel", "error", "--files", "/var/log/x.log", "--shutdownAfter", "8",
			"--servers", strings.Join(list, ",")}
		res := vlib.RunCmd(vlib.Cmd{Path: r.Bin("dtail"), Args: args, Env: []string{"HOME=" + home}, Dir: home})
		conns := map[int]int{}
		shells := map[int]int{}
		for _, e := range f.Events() {
			if e.Ev == "conn" {
				conns[e.Port]++
			}
			if e.Ev == "shell" {
				shells[e.Port]++
			}
		}
		f.Stop()
		os.RemoveAll(home)
		r.Eval(fmt.Sprintf("many|%d", k))
		r.Count("long_lived_runs_with_more_servers_than_connection_attempts_at_a_time", 1)
		if res.TimedOut {
			r.Inconclusive("dtail-watchdog")
			continue
		}
		never, twice := 0, 0
		for _, p := range ports {
			if shells[p] == 0 {
				never++
			}
			if conns[p] > 1 {
				twice++
			}
		}
		r.Count("long_lived_servers_contacted", len(shells))
		if never > 0 || twice > 0 {
			r.Violation("long-lived-sessions-servers-not-contacted-once", map[string]interface{}{"servers": k, "cpus": runtime.NumCPU(), "never_contacted": never,
				"contacted_more_than_once": twice, "stderr": vlib.Trunc(string(res.Stderr), 800), "stdout": vlib.Trunc(string(res.Stdout), 400)})
		}
	}
}

// c18Reconnect: a retrying client (dtail) whose connections are dropped by
// every server. Monitors over the servers' connection log: unlisted servers are
// never contacted; the client never holds two connections to one server at the
// same time (a reconnect replaces the dropped connection of that very server);
// no server is left out of the reconnects while another one is re-contacted
// again and again.
func c18Reconnect(r *vlib.Run) {
	rng := r.Rng("reconnect")
	nCases := r.N(3, 24)
	key, err := vlib.GenKey("ed25519")
	if err != nil {
		r.Inconclusive("keygen")
		return
	}
	hk := vlib.HostKey()
	hkFile := r.Dir("c18rc") + "/hostkey.pem"
	os.WriteFile(hkFile, hk.PEM, 0600)
	seeds := make([]int64, nCases)
	for i := range seeds {
		seeds[i] = rng.Int63()
	}
	vlib.Parallel(nCases, 6, func(ci int) {
		crng := rand.New(rand.NewSource(seeds[ci]))
		k := 2 + crng.Intn(4)
		var ports []int
		for len(ports) < k+1 {
			p := vlib.FreePort()
			dup := false
			for _, q := range ports {
				if q == p {
					dup = true
				}
			}
			if !dup && p != 0 {
				ports = append(ports, p)
			}
		}
		f, err := startFakeSSHD(r, fmt.Sprintf("c18rc-%d", ci), ports, []string{hkFile}, "", 150+crng.Intn(300))
		if err != nil {
			r.Inconclusive("fakesshd")
			return
		}
		defer f.Stop()
		var list []string
		for i := 0; i < k; i++ {
			list = append(list, fmt.Sprintf("127.0.0.1:%d", ports[i]))
		}
		full := append([]string(nil), list...)
		if crng.Intn(2) == 0 {
			full = append(full, list[crng.Intn(len(list))])
		}
		home, keyFile := r.ClientHome(fmt.Sprintf("c18rc-%d", ci), key)
		defer os.RemoveAll(home)
		args := []string{"--cfg", "none", "--noColor", "--trustAllHosts", "--key", keyFile, "--user", "tester",
			"--logger", "stdout", "--logLevel", "error", "--files", "/var/log/x.log", "--shutdownAfter", "11",
			"--servers", strings.Join(full, ",")}
		// the default port (for entries without one) is the unlisted listener's: an entry that loses its ":port" on
		// the way to a (re)connect shows up there
		args = append(args, "--port", fmt.Sprint(ports[k]))
		res := vlib.RunCmd(vlib.Cmd{Path: r.Bin("dtail"), Args: args, Env: []string{"HOME=" + home}, Dir: home})
		if res.TimedOut {
			r.Inconclusive("dtail-watchdog")
			return
		}
		total := map[int]int{}
		live := map[int]int{}
		maxLive := map[int]int{}
		for _, e := range f.Events() {
			switch e.Ev {
			case "conn":
				total[e.Port]++
				live[e.Port]++
				if live[e.Port] > maxLive[e.Port] {
					maxLive[e.Port] = live[e.Port]
				}
			case "closed", "handshake-failed":
				live[e.Port]--
			}
		}
		r.Eval(fmt.Sprintf("reconnect|%d|%d", k, len(full)))
		r.Count("reconnect_runs", 1)
		lo, hi := 1<<30, 0
		for i := 0; i < k; i++ {
			n := total[ports[i]]
			r.Count("reconnect_connections_observed", n)
			if n < lo {
				lo = n
			}
			if n > hi {
				hi = n
			}
		}
		if hi >= 2 {
			r.Count("reconnect_runs_with_reconnects", 1)
		}
		detail := map[string]interface{}{"servers": full, "listed_ports": ports[:k], "unlisted_port": ports[k],
			"connections_per_port": fmt.Sprint(total), "max_simultaneous_per_port": fmt.Sprint(maxLive)}
		switch {
		case total[ports[k]] > 0:
			r.Violation("reconnect-unlisted-server-contacted", detail)
		case lo == 0:
			r.Violation("reconnect-listed-server-never-contacted", detail)
		case lo == 1 && hi >= 4:
			r.Violation("reconnect-server-left-out-while-another-is-contacted-repeatedly", detail)
		default:
			for i := 0; i < k; i++ {
				if maxLive[ports[i]] > 1 {
					r.Violation("reconnect-two-connections-to-one-server-at-a-time", detail)
					break
				}
			}
		}
	})
}

func hashStrings(ss []string) uint64 {
	h := uint64(1469598103934665603)
	for _, s := range ss {
		for _, b := range []byte(s) {
			h ^= uint64(b)
			h *= 1099511628211
		}
		h ^= 0xff
		h *= 1099511628211
	}
	return h
}

func sizeClass(n int) string {
	switch {
	case n == 0:
		return "0"
	case n == 1:
		return "1"
	case n == 2:
		return "2"
	case n <= 10:
		return "3-10"
	case n <= 100:
		return "11-100"
	case n <= 1000:
		return "101-1000"
	default:
		return ">1000"
	}
}

func clipStrings(ss []string, n int) []string {
	if len(ss) <= n {
		return ss
	}
	out := append([]string(nil), ss[:n]...)
	return append(out, fmt.Sprintf("...(+%d)", len(ss)-n))
}

func equalStrings(a, b []string) bool {
	if len(a) != len(b) {
		return false
	}
	for i := range a {
		if a[i] != b[i] {
			return false
		}
	}
	return true
}

// c18E2E: real dcat against fake SSH servers: every listed (distinct) port
// sees exactly one connection, no other port is dialled.
func c18E2E(r *vlib.Run) {
	rng := r.Rng("e2e")
	nCases := r.N(6, 60)
	key, err := vlib.GenKey("ed25519")
	if err != nil {
		r.Inconclusive("keygen")
		return
	}
	hk := vlib.HostKey()
	hkFile := r.Dir("c18e2e") + "/hostkey.pem"
	os.WriteFile(hkFile, hk.PEM, 0600)
	vlib.Parallel(nCases, 6, func(ci int) {
		crng := rand.New(rand.NewSource(rng.Int63() + int64(ci)))
		mu.Lock()
		k := 1 + crng.Intn(6)
		mu.Unlock()
		var ports []int
		for len(ports) < k+2 {
			p := vlib.FreePort()
			dup := false
			for _, q := range ports {
				if q == p {
					dup = true
				}
			}
			if !dup && p != 0 {
				ports = append(ports, p)
			}
		}
		// all k+2 ports listen; only the first k are listed.
		f, err := startFakeSSHD(r, fmt.Sprintf("c18-%d", ci), ports, []string{hkFile}, "", 100)
		if err != nil {
			r.Inconclusive("fakesshd")
			return
		}
		defer f.Stop()
		var list []string
		for i := 0; i < k; i++ {
			list = append(list, fmt.Sprintf("127.0.0.1:%d", ports[i]))
		}
		// duplicates: adjacent and distant
		full := append([]string(nil), list...)
		for i := 0; i < crng.Intn(4); i++ {
			full = append(full, list[crng.Intn(len(list))])
		}
		if crng.Intn(2) == 0 {
			full = append([]string{list[len(list)-1]}, full...)
		}
		home, keyFile := r.ClientHome(fmt.Sprintf("c18-%d", ci), key)
		args := []string{"--cfg", "none", "--noColor", "--trustAllHosts", "--key", keyFile, "--user", "tester",
			"--logger", "stdout", "--logLevel", "error", "--files", "/etc/hostname"}
		useFile := crng.Intn(2) == 0
		if useFile {
			lf := home + "/Servers-PROD.txt"
			os.WriteFile(lf, []byte(strings.Join(full, "\n")+"\n"), 0644)
			args = append(args, "--servers", lf)
		} else {
			args = append(args, "--servers", strings.Join(full, ","))
		}
		res := vlib.RunCmd(vlib.Cmd{Path: r.Bin("dcat"), Args: args, Env: []string{"HOME=" + home}, Dir: home})
		if res.TimedOut {
			r.Inconclusive("dcat-watchdog")
			return
		}
		conns := map[int]int{}
		for _, e := range f.Events() {
			if e.Ev == "handshake" {
				conns[e.Port]++
			}
		}
		r.Eval(fmt.Sprintf("e2e|%v|%d|%d", useFile, k, len(full)))
		r.Count("e2e_runs", 1)
		r.Count("e2e_connections_observed", len(conns))
		bad := false
		for i, p := range ports {
			want := 0
			if i < k {
				want = 1
			}
			if conns[p] != want {
				bad = true
			}
		}
		if bad || res.Hung {
			r.Violation("e2e-connections", map[string]interface{}{"servers": full, "listed_ports": ports[:k],
				"unlisted_ports": ports[k:], "handshakes_per_port": fmt.Sprint(conns), "hung": res.Hung,
				"stderr": vlib.Trunc(string(res.Stderr), 1500), "stdout": vlib.Trunc(string(res.Stdout), 500)})
		}
	})
}
