package props

import (
	"bytes"
	"encoding/base64"
	"encoding/json"
	"fmt"
	"io"
	"math/rand"
	"os"
	"path/filepath"
	"strings"
	"sync"
	"time"

	"github.com/mimecast/dtail/verifharness/internal/mq"
	"github.com/mimecast/dtail/verifharness/internal/vlib"
	"golang.org/x/crypto/ssh"
)

// C10 — no client-supplied bytes can crash the server.

func init() {
	Drivers["C10"] = c10
}

type c10Input struct {
	Hex   string `json:"hex"`   // raw bytes written to the session
	Class string `json:"class"` // generator cell
}

// c10Gen generates one hostile session input.
type c10Gen struct {
	rng     *rand.Rand
	files   []string // readable files
	dir     string
	queries []string
}

func (g *c10Gen) pick(ss []string) string { return ss[g.rng.Intn(len(ss))] }

func (g *c10Gen) query() string {
	rng := g.rng
	switch rng.Intn(12) {
	case 0:
		return ""
	case 1:
		return "`"
	case 2:
		return "select"
	case 3:
		return "select count($line) from STATS interval " + g.pick([]string{"0", "-1", "-5", "99999999999", "00"})
	case 4:
		return "select count($line) from STATS limit " + g.pick([]string{"0", "-1", "-100", "99999999999"})
	case 5:
		return "select count($line) from STATS logformat " + g.pick([]string{"nope", "csv", "generic", "mimecast", "custom1", "custom2", ""})
	case 6:
		return "select count($line),sum($goroutines) from STATS group by $hostname outfile " + g.pick([]string{"/dev/null", "/proc/self/mem", "", "append", g.dir + "/x.csv"})
	}
	q := g.queries[rng.Intn(len(g.queries))]
	switch rng.Intn(5) {
	case 0:
		return q[:rng.Intn(len(q)+1)]
	case 1:
		p := rng.Intn(len(q) + 1)
		return q[:p] + g.pick([]string{"`", "\"", "(", ")", "\x00", "``", "((", "$", "=", "≔", "∥"}) + q[p:]
	case 2:
		toks := strings.Fields(q)
		if len(toks) > 1 {
			k := rng.Intn(len(toks))
			toks = append(toks[:k], toks[k+1:]...)
		}
		return strings.Join(toks, " ")
	}
	return q
}

func (g *c10Gen) options() string {
	rng := g.rng
	opts := []string{"plain=true", "quiet=true", "serverless=true", "before=1", "after=2", "max=3", "k", "k=", "=v", "max=", "max=abc",
		"before=-1", "after=99999999999999999999", "max=-5", "before=base64%!!", "x=base64%" + base64.StdEncoding.EncodeToString([]byte("hi")),
		"plain=base64%", "max=base64%" + base64.StdEncoding.EncodeToString([]byte("notanumber")), "=", "==", "plain", "quiet=TRUE", "max=1e3",
		"before=100000000", "after=2147483648", "before=99999999999", "before=4611686018427387904", "before=9223372036854775807",
		"after=9223372036854775807", "max=9223372036854775807", "before=2147483647", "max=4294967296", "before=1152921504606846976"}
	n := rng.Intn(4)
	var out []string
	for i := 0; i < n; i++ {
		out = append(out, g.pick(opts))
	}
	return strings.Join(out, ":")
}

func (g *c10Gen) fileArg() string {
	return g.pick(append([]string{"", "/dev/zero", "/dev/null", "/", "/etc", "/nonexistent/file", "*", "/*/*/*/*", "[", "[a-", "\\", "/proc/self/mem",
		"{a,b}", "/tmp/../../../etc/hostname", g.dir, g.dir + "/*", g.dir + "/many/*.log", g.dir + "/many/*.log",
		// unclean spellings of paths with a wildcard (doubled slashes, ./ and ../ before the wildcard element)
		g.dir + "//many/*.log", g.dir + "/./many/*.log", g.dir + "/many/../many/*.log", g.dir + "//*/m00*.log", g.dir + "/many//*.log",
		"//" + strings.TrimPrefix(g.dir, "/") + "/*/*.log", g.dir + "/*/../*/m001.log", g.dir + "/./*", g.dir + "/many/./m0*", "./*", "../*/*", "*//*", g.dir + "/[", "~", ".", "..", "/dev/stdin", "/proc/self/fd/0", strings.Repeat("a/", 200)}, g.files...))
}

func (g *c10Gen) regexArg() string {
	return g.pick([]string{"regex:default foo", "regex:invert foo", "regex:noop ", "regex:noop", "regex foo", "regex:bogus foo", "regex:default,invert,noop x",
		"regex:default (", "regex:default [", "regex:default a{1000}{1000}", "regex:default \\", "regex:default (?P<n", "regexfoo", "rege x", "regex:",
		"regex:, ", "regex:default " + strings.Repeat("(a|b)*", 50), "regex:default \x00", "regex:invert", "foo", "regex:default a**", ""})
}

func (g *c10Gen) command() string {
	rng := g.rng
	word := g.pick([]string{"cat", "grep", "tail", "map", ".ack", "health", "timeout", "junk", "", "CAT", "cat ", ".syn", "AGGREGATE"})
	switch word {
	case "map":
		return "map" + g.pick([]string{"", ":", ":" + g.options()}) + g.pick([]string{"", " "}) + g.query()
	case ".ack":
		return g.pick([]string{".ack", ".ack close", ".ack close connection", ".ack x y z", ".ack close connection extra", ".ack:plain=true close connection"})
	case "timeout":
		return fmt.Sprintf("timeout %s cat %s %s", g.pick([]string{"1", "0", "-1", "x", ""}), g.fileArg(), g.regexArg())
	}
	argc := rng.Intn(7)
	parts := []string{word}
	if rng.Intn(2) == 0 {
		parts[0] = word + ":" + g.options()
	}
	if argc >= 1 {
		parts = append(parts, g.fileArg())
	}
	if argc >= 2 {
		parts = append(parts, g.regexArg())
	}
	for i := 3; i <= argc; i++ {
		parts = append(parts, g.pick([]string{"", "x", "regex:default", "  ", "\t"}))
	}
	return strings.Join(parts, " ")
}

func (g *c10Gen) envelope(cmd string) []byte {
	rng := g.rng
	enc := base64.StdEncoding.EncodeToString([]byte(cmd))
	switch rng.Intn(14) {
	case 0:
		return []byte("protocol 3 base64 " + enc + ";")
	case 1:
		return []byte("protocol 99 base64 " + enc + ";")
	case 2:
		return []byte("protocol 4.1 base64 " + enc) // no terminator
	case 3:
		return []byte("protocol 4.1 base64 !!!notbase64!!!;")
	case 4:
		return []byte("protocol 4.1 " + enc + ";")
	case 5:
		return []byte(cmd + ";")
	case 6:
		return []byte("protocol 4.1 base64 " + enc + " extra;")
	case 7:
		return []byte(";;;" + "protocol 4.1 base64 " + enc + ";;")
	case 8:
		return []byte("protocol 4.1 base64 " + enc[:len(enc)/2] + ";")
	case 9:
		return []byte("protocol  4.1  base64  " + enc + ";")
	case 10:
		return []byte("protocol 4.1 base64 ;")
	}
	return []byte("protocol 4.1 base64 " + enc + ";")
}

func (g *c10Gen) input() c10Input {
	rng := g.rng
	switch rng.Intn(20) {
	case 0: // random raw bytes
		b := make([]byte, rng.Intn(300))
		for i := range b {
			b[i] = byte(rng.Intn(256))
		}
		if rng.Intn(2) == 0 {
			b = append(b, ';')
		}
		return c10Input{Hex: fmt.Sprintf("%x", b), Class: "rawbytes"}
	case 1: // large input without terminator
		return c10Input{Hex: fmt.Sprintf("%x", bytes.Repeat([]byte("A"), 1<<20)), Class: "1MiB-no-terminator"}
	case 2: // many terminators
		return c10Input{Hex: fmt.Sprintf("%x", bytes.Repeat([]byte(";"), 2000)), Class: "semicolons"}
	case 3: // embedded NUL/0xAC/newlines in the envelope
		cmd := g.command()
		e := g.envelope(cmd)
		p := rng.Intn(len(e) + 1)
		e = append(e[:p:p], append([]byte(g.pick([]string{"\x00", "\xac", "\n", "\r\n", " ", "\t"})), e[p:]...)...)
		return c10Input{Hex: fmt.Sprintf("%x", e), Class: "envelope-embedded-byte"}
	}
	if rng.Intn(6) == 0 {
		// individually valid commands in an order no client produces
		f := g.files[0]
		valid := []string{
			"tail " + f + " regex:noop ", "cat " + f + " regex:noop ", "grep " + f + " regex:default line",
			"tail:plain=true " + g.files[1] + " regex:noop ", "cat:quiet=true " + g.dir + "/*.log regex:noop ",
			"cat " + g.dir + "/many/*.log regex:noop ", "grep " + g.dir + "/many/m*.log regex:default one",
			"cat " + g.dir + "//many/m00*.log regex:noop ", "cat " + g.dir + "/./*/m01*.log regex:noop ", "grep " + g.dir + "/many/../*/m02*.log regex:default one",
			"cat " + g.dir + "/cut.gz regex:noop ", "cat " + g.dir + "/cut.zst regex:noop ", "grep " + g.dir + "/cut.gz regex:default STATS",
			"map select count($line),last($line) group by $hostname set $x = md5sum($line) logformat generic", "cat " + g.dir + "/lines3000.log regex:noop ",
			"map select count($line) group by $hostname",
			"cat " + g.dir + "/garbage.gz regex:noop ", "cat " + g.dir + "/zero.zst regex:noop ", "tail " + g.dir + "/cut.gz regex:noop ",
			"map select count($line) from STATS group by $hostname", "map from STATS select count($line),max($goroutines) group by $hostname interval 1",
			"map " + g.queries[rng.Intn(len(g.queries))], ".ack close connection", "grep:max=1:after=2 " + f + " regex:invert two",
		}
		n := 2 + rng.Intn(4)
		var b bytes.Buffer
		var names []string
		for i := 0; i < n; i++ {
			c := valid[rng.Intn(len(valid))]
			names = append(names, strings.SplitN(strings.SplitN(c, " ", 2)[0], ":", 2)[0])
			b.WriteString("protocol 4.1 base64 " + base64.StdEncoding.EncodeToString([]byte(c)) + ";")
		}
		return c10Input{Hex: fmt.Sprintf("%x", b.Bytes()), Class: "valid-sequence/" + strings.Join(names, ",")}
	}
	// a sequence of 1..4 commands in one session
	n := 1 + rng.Intn(4)
	var b bytes.Buffer
	cls := ""
	for i := 0; i < n; i++ {
		cmd := g.command()
		if i == 0 {
			w := strings.SplitN(cmd, " ", 2)[0]
			w = strings.SplitN(w, ":", 2)[0]
			cls = fmt.Sprintf("cmd-%s/argc%d", w, len(strings.Split(cmd, " ")))
		}
		b.Write(g.envelope(cmd))
	}
	return c10Input{Hex: fmt.Sprintf("%x", b.Bytes()), Class: cls}
}

// c10Batch: inputs per worker process; every process starts cold (nothing
// cached or compiled yet) with the simultaneous sessions staged at the
// beginning of its batch, so a smaller batch means more cold starts per run.
const c10Batch = 400

// c10Permissions: a rule list as an operator writes it (several rules; all
// files of the harness stay readable).
var c10Permissions = []string{"^/.*", "!^/nonexistent-a/.*", "!^/nonexistent-b/.*\\.key$", "readfiles:^/.*", "!^/root/\\.ssh/.*",
	"!^/nonexistent-c/[[:digit:]]+$", "!^/nonexistent-d/.*", "readfiles:!^/nonexistent-e/.*", "!^/nonexistent-f/.*", "!^/nonexistent-g/.*"}

// deterministic probes: regression guards for the repaired crashes.
func c10Probes(file string) []c10Input {
	mk := func(cmd string) c10Input {
		return c10Input{Hex: fmt.Sprintf("%x", "protocol 4.1 base64 "+base64.StdEncoding.EncodeToString([]byte(cmd))+";"), Class: "probe"}
	}
	raw := func(b string) c10Input { return c10Input{Hex: fmt.Sprintf("%x", b), Class: "probe"} }
	return []c10Input{raw("protocol 4.1 base64;"), raw("protocol 4.1;"), raw("protocol;"), raw("protocol 4.1 base64 ;"), raw("protocol 4.1 base64  x;"),
		raw("protocol 4.1 BASE64 Y2F0;"), raw("protocol 4.1 base64 Y2F0 extra;"), raw("protocol 9.9 base64 Y2F0;"), raw(";"), raw(" ;"), raw("base64;"),
		mk("tail"), mk("cat"), mk("grep"), mk("map"), mk("map "), mk("map `"), mk("map select ` from x"), mk("cat " + file),
		mk("map select count($line) from STATS interval 0"), mk("map select count($line) from STATS interval -1"),
		mk("map:plain=true"), mk(".ack"), mk("timeout"), mk("tail:max=1"), mk(""),
		mk("cat " + filepath.Dir(file) + "//many/m00*.log regex:noop "), mk("cat " + filepath.Dir(file) + "/./*/m01*.log regex:noop "),
		mk("cat " + filepath.Dir(file) + "/many/../*/m02*.log regex:noop "), mk("cat:quiet " + file + " regex:noop "), mk("cat:plain=true: " + file + " regex:noop "),
		mk("map select count($line) from STATS logformat bogus"), mk("map select count($line) logformat nosuchformat"),
		// context sizes no file has: the server must not size anything by them
		mk("grep:before=4611686018427387904 " + file + " regex:default two"), mk("grep:before=99999999999 " + file + " regex:default three"),
		mk("grep:before=9223372036854775807:after=9223372036854775807:max=9223372036854775807 " + file + " regex:default line"),
		mk("grep:after=9223372036854775807 " + file + " regex:invert two"), mk("grep:max=9223372036854775807:before=1152921504606846976 " + file + " regex:default two"),
		mk("cat:before=4611686018427387904 " + file + " regex:noop "), mk("tail:before=4611686018427387904 " + file + " regex:default two")}
}

func c10(r *vlib.Run) int {
	r.Rule("grammar-aware hostile sessions: command word {cat,grep,tail,map,.ack,health,timeout,junk,''} x 0..6 arguments x option lists " +
		"(valid, 'k', 'k=', '=v', broken base64, huge/negative ints) x file arguments (missing, glob metacharacters, devices, directories) " +
		"x regex payloads (valid, invalid, unknown flags) x queries (valid, every kind of mutation, prefixes, lone back-quote, empty, " +
		"interval/limit 0, negative, huge) x envelope faults (wrong version, no base64, no terminator, 1 MiB without terminator, " +
		"embedded NUL/0xAC/newline) + raw random bytes. handler tier: each input into a fresh real ServerHandler in a worker process " +
		"(input logged before it is applied); SSH tier: hostile sessions against a real server while a canary session of another " +
		"user follows a file and health logins are made. distinct = distinct inputs; non-trivial = input containing a decodable command.")
	dir := r.Dir("c10files")
	f1 := filepath.Join(dir, "small.log")
	os.WriteFile(f1, []byte("INFO|1002-071209|1|m.go:1|8|14|7|0.21|471h|MAPREDUCE:STATS|a=1|b=2\nline two\nline three\n"), 0644)
	f2 := filepath.Join(dir, "empty.log")
	os.WriteFile(f2, nil, 0644)
	// a directory of many files: one request makes the server check and read
	// all of them at once
	os.MkdirAll(filepath.Join(dir, "many"), 0755)
	for k := 0; k < 400; k++ {
		os.WriteFile(filepath.Join(dir, "many", fmt.Sprintf("m%03d.log", k)), []byte(fmt.Sprintf("file %d line one\n", k)), 0644)
	}
	// compressed files whose stream breaks in the middle (the reader fails while
	// lines are still in the pipeline), and files that are not what their name says
	var stats bytes.Buffer
	for k := 0; k < 6000; k++ {
		fmt.Fprintf(&stats, "INFO|1002-071209|1|m.go:1|8|14|7|0.21|471h|MAPREDUCE:STATS|a=%d|b=%d\n", k%7, k)
	}
	{
		var b bytes.Buffer
		for k := 0; k < 3000; k++ {
			fmt.Fprintf(&b, "line %d of a file without any mapreduce table 2026-10-05 user%d\n", k, k%13)
		}
		os.WriteFile(filepath.Join(dir, "lines3000.log"), b.Bytes(), 0644)
		// a file in which every line has a group key of its own (mapreduce sessions over it run for several report
		// intervals with tens of thousands of groups)
		var u bytes.Buffer
		for k := 0; k < 150000; k++ {
			fmt.Fprintf(&u, "id=u%06d|v=%d|w=1\n", k, k%97)
		}
		os.WriteFile(filepath.Join(dir, "uniq150000.log"), u.Bytes(), 0644)
	}
	var broken []string
	for _, ext := range []string{".gz", ".zst"} {
		whole := compress(ext, stats.Bytes())
		cut := filepath.Join(dir, "cut"+ext)
		os.WriteFile(cut, whole[:len(whole)*2/3], 0644)
		garbage := filepath.Join(dir, "garbage"+ext)
		os.WriteFile(garbage, []byte("not compressed data\n"), 0644)
		empty := filepath.Join(dir, "zero"+ext)
		os.WriteFile(empty, nil, 0644)
		broken = append(broken, cut, garbage, empty)
	}
	rngq := r.Rng("queries")
	var queries []string
	for i := 0; i < 300; i++ {
		t := mq.GenTable(rngq, []string{"default", "generickv", "csv"}[i%3], 5)
		q := mq.GenQuery(rngq, t)
		queries = append(queries, q.Render(&mq.Style{Rng: rngq}))
	}
	g := &c10Gen{rng: r.Rng("inputs"), files: append([]string{f1, f2}, broken...), dir: dir, queries: queries}
	n := r.N(5000, 250000)
	inputs := append(make([]c10Input, 12), c10Probes(f1)...) // the first 12 are overwritten below
	for len(inputs) < n {
		inputs = append(inputs, g.input())
	}
	// the very first sessions of every worker process (a freshly started
	// server, nothing cached or compiled yet) are several many-file requests
	// at the same time
	for i := range inputs {
		if k := i % c10Batch; k < 4 {
			cmd := "cat " + dir + "/many/*.log regex:noop "
			if k%2 == 1 {
				cmd = "grep " + dir + "/many/m*.log regex:default one"
			}
			inputs[i] = c10Input{Hex: fmt.Sprintf("%x", encodeCommand(cmd)), Class: "valid-sequence/many-file-glob"}
		}
	}
	// mapreduce sessions over a compressed file whose stream breaks
	for i := range inputs {
		if k := i % c10Batch; k >= 4 && k < 8 {
			f := []string{"/cut.gz", "/cut.zst", "/cut.gz", "/garbage.gz"}[k-4]
			q := []string{"map select count($line) from STATS group by a", "map from STATS select count($line),max(b) group by a interval 1"}[k%2]
			inputs[i] = c10Input{Hex: fmt.Sprintf("%x", encodeCommand(q)+encodeCommand("cat "+dir+f+" regex:noop ")), Class: "valid-sequence/map,cat-broken-compressed-file"}
		}
	}
	// mapreduce sessions with the generic log format (no table, or logformat
	// generic), with and without a set clause, over a few thousand lines: every
	// line passes through all stages of the aggregation pipeline
	for i := range inputs {
		if k := i % c10Batch; k >= 8 && k < 12 {
			q := []string{
				"map select count($line),last($line) group by $hostname set $x = md5sum($line) logformat generic",
				"map select count($line) group by $hostname",
				"map select count($x),max($y) group by $x set $x = maskdigits($line), $y = 42 logformat generic interval 1",
				"map select $line,count($line) group by $line logformat generic",
			}[k-8]
			inputs[i] = c10Input{Hex: fmt.Sprintf("%x", encodeCommand(q)+encodeCommand("cat "+dir+"/lines3000.log regex:noop ")), Class: "valid-sequence/map-generic,cat-until-done"}
		}
	}
	// the same with every log format name the parser factory knows (also the ones that are only place-holders), with
	// and without set and where clauses: whatever a format's parser returns for a line (fields, an error, nothing), the
	// stages behind it must cope
	formats := []string{"generic", "generickv", "csv", "default", "custom1", "custom2", "mimecast", "mimecastgeneric"}
	for i := range inputs {
		if k := i % c10Batch; k >= c10Batch-8 && i >= c10Batch {
			f := formats[(i/c10Batch+k)%len(formats)]
			q := []string{
				"map select count($line),last($x) group by $x set $x = maskdigits($line) logformat " + f,
				"map select count($line) group by $hostname logformat " + f,
				"map select count($line),max($y) set $y = 42 where $line contains \"e\" logformat " + f,
				"map select $line,count($line) from STATS group by $line set $z = md5sum($line) logformat " + f + " interval 1",
			}[(i/c10Batch/len(formats)+k)%4]
			inputs[i] = c10Input{Hex: fmt.Sprintf("%x", encodeCommand(q)+encodeCommand("cat "+dir+"/lines3000.log regex:noop ")), Class: "valid-sequence/map-logformat-" + f + ",cat-until-done"}
		}
	}
	// sessions whose mapreduce lasts several report intervals (interval 1) over tens of thousands of groups: the
	// periodic report and the aggregation work on the same groups for seconds
	for i := range inputs {
		if k := i % c10Batch; k == c10Batch-9 && i >= c10Batch {
			q := []string{"map select count(id),sum(v) group by id interval 1 limit 3 logformat generickv",
				"map select id,count(id),max(v),last(w) group by id order by count(id) interval 1 logformat generickv"}[(i/c10Batch)%2]
			inputs[i] = c10Input{Hex: fmt.Sprintf("%x", encodeCommand(q)+encodeCommand("cat "+dir+"/uniq150000.log regex:noop ")), Class: "valid-sequence/map-many-groups-several-intervals,cat-until-done"}
		}
	}
	cases := make([]interface{}, len(inputs))
	for i := range inputs {
		cases[i] = inputs[i]
	}
	// cold starts on their own: worker processes that do nothing but four
	// simultaneous many-file requests right after start-up
	nCold := r.N(40, 400)
	var cold []interface{}
	for k := 0; k < 4*nCold; k++ {
		cold = append(cold, inputs[k%4])
	}
	_, coldCrashes := r.RunBatchesOpts("c10handler", cold, vlib.BatchOpts{Size: 4, Workers: 8})
	r.Count("cold_server_processes_hit_by_simultaneous_many_file_requests", nCold)
	for _, cr := range coldCrashes {
		r.Violation("server-handler-crash", map[string]interface{}{"scenario": "four simultaneous many-file glob requests as the first sessions of a server process (10 permission rules)",
			"stderr": vlib.Trunc(string(cr.Result.Stderr), 3000), "exit": cr.Result.Exit, "signal": cr.Result.Signal})
	}
	results, crashes := r.RunBatchesOpts("c10handler", cases, vlib.BatchOpts{Size: c10Batch, Workers: 14})
	for _, cr := range crashes {
		var idxs []int
		if cr.Index >= 0 {
			for k := cr.Index - 5; k <= cr.Index; k++ {
				if k >= 0 {
					idxs = append(idxs, k)
				}
			}
		} else {
			idxs = cr.Suspects
			if len(idxs) > 12 {
				idxs = idxs[:12]
			}
		}
		var cands []map[string]string
		for _, k := range idxs {
			var b []byte
			fmt.Sscanf(inputs[k].Hex, "%x", &b)
			cands = append(cands, map[string]string{"class": inputs[k].Class, "input": vlib.Trunc(fmt.Sprintf("%q", b), 400)})
		}
		r.Violation("server-handler-crash", map[string]interface{}{"culprit_and_predecessors": cands,
			"stderr": vlib.Trunc(string(cr.Result.Stderr), 3000), "exit": cr.Result.Exit, "signal": cr.Result.Signal})
	}
	for i, raw := range results {
		if raw == nil {
			continue
		}
		in := inputs[i]
		key := ""
		if strings.HasPrefix(in.Class, "cmd-") || in.Class == "probe" {
			key = in.Hex
		}
		if len(key) > 200 {
			key = key[:200]
		}
		r.Eval(key)
		r.SetAdd("input_class", in.Class)
		var res struct {
			RespLen int    `json:"resp_len"`
			Resp    string `json:"resp"`
			Ms      int    `json:"ms"`
		}
		json.Unmarshal(raw, &res)
		r.Count("handler_ms_total", res.Ms)
		r.Max("handler_ms_max", res.Ms)
		if res.RespLen > 0 {
			r.Count("handler_inputs_answered", 1)
			cls := "other"
			for _, w := range []string{"Unable to parse command", "unknown user command", "unable to determine protocol", "does not match", "unable to decode",
				"Unable to parse options", "Unable to read file", "Invalid query", ".syn close", "REMOTE|", "AGGREGATE|", "illegal base64", "invalid syntax"} {
				if strings.Contains(res.Resp, w) {
					cls = w
					break
				}
			}
			r.SetAdd("response_class", cls)
		}
		if i < 3 {
			var b []byte
			fmt.Sscanf(in.Hex, "%x", &b)
			r.Sample(map[string]interface{}{"class": in.Class, "input": vlib.Trunc(fmt.Sprintf("%q", b), 300), "response": res.Resp})
		}
	}
	c10SSH(r, g, f1)
	return n / 2
}

func c10SSH(r *vlib.Run, g *c10Gen, file string) {
	key := clientKey()
	canaryKey, _ := vlib.GenKey("ed25519")
	spec := &vlib.ServerSpec{
		Name: "c10",
		Server: map[string]interface{}{"MaxConnections": 200, "MaxConcurrentCats": 8, "MaxConcurrentTails": 50,
			"Permissions": map[string]interface{}{"Default": c10Permissions}},
		LogLevel: "error",
		Users:    map[string][]string{"hostile": {key.AuthKey}, "canary": {canaryKey.AuthKey}},
	}
	srv, err := r.StartServer(spec)
	if err != nil {
		r.Inconclusive("server-start")
		return
	}
	defer srv.Stop()
	// canary: another user's long running session following a file
	canaryFile := filepath.Join(srv.Spec.Dir, "canary.log")
	os.WriteFile(canaryFile, []byte("old\n"), 0644)
	cc, _, cout, cin, err := trySession(srv.Addr(), "canary", []ssh.AuthMethod{ssh.PublicKeys(canaryKey.Signer)}, "")
	if err != nil {
		r.Inconclusive("canary-login")
		return
	}
	defer cc.Close()
	io.WriteString(cin, encodeCommand("tail:plain=true "+canaryFile+" regex:noop "))
	var cmu sync.Mutex
	var cbuf bytes.Buffer
	canaryEOF := make(chan struct{})
	go func() {
		b := make([]byte, 32768)
		for {
			n, err := cout.Read(b)
			if n > 0 {
				cmu.Lock()
				cbuf.Write(b[:n])
				cmu.Unlock()
			}
			if err != nil {
				close(canaryEOF)
				return
			}
		}
	}()
	time.Sleep(400 * time.Millisecond) // let the follower open and position
	canarySeq := 0
	canaryCheck := func(context []string) bool {
		canarySeq++
		token := fmt.Sprintf("canary-line-%d", canarySeq)
		fd, _ := os.OpenFile(canaryFile, os.O_APPEND|os.O_WRONLY, 0644)
		fmt.Fprintln(fd, token)
		fd.Close()
		deadline := time.Now().Add(20 * time.Second)
		for {
			cmu.Lock()
			has := bytes.Contains(cbuf.Bytes(), []byte(token))
			cmu.Unlock()
			if has {
				r.Count("canary_lines_received", 1)
				return true
			}
			select {
			case <-canaryEOF:
				r.Violation("other-users-session-ended", map[string]interface{}{"hostile_inputs_before": context,
					"server_alive": srv.D.Alive(), "server_log": vlib.Trunc(string(srv.D.Log()), 3000)})
				return false
			default:
			}
			if !srv.D.Alive() {
				r.Violation("server-process-died", map[string]interface{}{"hostile_inputs_before": context, "server_log": vlib.Trunc(string(srv.D.Log()), 4000)})
				return false
			}
			if time.Now().After(deadline) {
				r.Inconclusive("canary-line-slow")
				return true
			}
			time.Sleep(10 * time.Millisecond)
		}
	}
	healthOK := func(context []string) bool {
		c, _, out, in, err := trySession(srv.Addr(), "DTAIL-HEALTH", []ssh.AuthMethod{ssh.Password("DTAIL-HEALTH")}, "")
		if err != nil {
			if !srv.D.Alive() {
				r.Violation("server-process-died", map[string]interface{}{"hostile_inputs_before": context, "server_log": vlib.Trunc(string(srv.D.Log()), 4000)})
			} else {
				r.Violation("health-login-failed-after-hostile-input", map[string]interface{}{"hostile_inputs_before": context, "error": err.Error()})
			}
			return false
		}
		defer c.Close()
		io.WriteString(in, encodeCommand("health"))
		resp := readUntilQuiet(out, 300*time.Millisecond, 10*time.Second)
		if !bytes.Contains(resp, []byte("OK")) {
			r.Violation("health-not-ok-after-hostile-input", map[string]interface{}{"hostile_inputs_before": context, "response": string(resp)})
			return false
		}
		r.Count("health_checks_ok", 1)
		return true
	}

	n := r.N(240, 6000)
	inputs := c10Probes(file)
	for len(inputs) < n {
		inputs = append(inputs, g.input())
	}
	round := 12
	for lo := 0; lo < len(inputs); lo += round {
		hi := lo + round
		if hi > len(inputs) {
			hi = len(inputs)
		}
		var ctxs []string
		var wg sync.WaitGroup
		for i := lo; i < hi; i++ {
			var data []byte
			fmt.Sscanf(inputs[i].Hex, "%x", &data)
			ctxs = append(ctxs, vlib.Trunc(fmt.Sprintf("%q", data), 300))
			wg.Add(1)
			go func(data []byte, cls string) {
				defer wg.Done()
				c, _, out, in, err := trySession(srv.Addr(), "hostile", []ssh.AuthMethod{ssh.PublicKeys(key.Signer)}, "")
				if err != nil {
					return
				}
				defer c.Close()
				in.Write(data)
				resp := readUntilQuiet(out, 80*time.Millisecond, 3*time.Second)
				r.Eval("ssh|" + vlib.Trunc(fmt.Sprintf("%x", data), 200))
				r.Count("ssh_hostile_sessions", 1)
				if len(resp) > 0 {
					r.Count("ssh_hostile_sessions_answered", 1)
				}
			}(data, inputs[i].Class)
		}
		wg.Wait()
		if !canaryCheck(ctxs) || !healthOK(ctxs) {
			return
		}
	}
}
