package props

import (
	"encoding/json"
	"fmt"
	"math/rand"
	"os"
	"path/filepath"
	"regexp"
	"strings"
	"time"

	"github.com/mimecast/dtail/verifharness/internal/vlib"
)

// C03 — dgrep selects exactly the lines grep semantics prescribe.

// grepModel is the independent reference: which line indices (0-based) are
// output, in order, for a selection vector and before/after/max.
func grepModel(sel []bool, before, after, max int) []int {
	var out []int
	var ring []int // last `before` unselected, not yet emitted lines
	afterLeft := 0
	count := 0
	maxReached := false
	for i, s := range sel {
		if s {
			if maxReached {
				break // trailing context ends at the next selected line; nothing after it
			}
			out = append(out, ring...)
			ring = ring[:0]
			out = append(out, i)
			afterLeft = after
			count++
			if max > 0 && count == max {
				if after == 0 {
					break
				}
				maxReached = true
			}
			continue
		}
		if afterLeft > 0 {
			out = append(out, i)
			afterLeft--
			continue
		}
		if before > 0 {
			ring = append(ring, i)
			if len(ring) > before {
				ring = ring[1:]
			}
		}
	}
	return out
}

// isNoopPattern: the three patterns which select every line.
func isNoopPattern(p string) bool { return p == "" || p == "." || p == ".*" }

// selection computes the selection vector of lines for a pattern with Go's
// regexp on the bare line (no terminator).
func selection(lines []string, pattern string, invert bool) ([]bool, error) {
	sel := make([]bool, len(lines))
	if isNoopPattern(pattern) {
		for i := range sel {
			sel[i] = true
		}
		return sel, nil
	}
	re, err := regexp.Compile(pattern)
	if err != nil {
		return nil, err
	}
	for i, l := range lines {
		sel[i] = re.MatchString(l) != invert
	}
	return sel, nil
}

type c03Case struct {
	// exhaustive: N lines, bit i of Mask set = line i is "m<i>" (matches ^m)
	Exhaustive bool   `json:"ex,omitempty"`
	N          int    `json:"n,omitempty"`
	MaskLo     uint32 `json:"lo,omitempty"`
	MaskHi     uint32 `json:"hi,omitempty"` // masks [lo,hi)
	// random: explicit lines/pattern/params
	Lines   []string `json:"lines,omitempty"`
	FinalNL bool     `json:"final_nl,omitempty"`
	Pattern string   `json:"pattern,omitempty"`
	Invert  bool     `json:"invert,omitempty"`
	Params  [][3]int `json:"params,omitempty"` // before, after, max
}

type c03Mismatch struct {
	Lines   []string `json:"lines"`
	FinalNL bool     `json:"final_nl"`
	Pattern string   `json:"pattern"`
	Invert  bool     `json:"invert"`
	Before  int      `json:"before"`
	After   int      `json:"after"`
	Max     int      `json:"max"`
	Got     []int    `json:"got"`  // 1-based line numbers reported (Count)
	Want    []int    `json:"want"` // 1-based
	Why     string   `json:"why"`
}

type c03Result struct {
	Runs       int           `json:"runs"`
	Distinct   int           `json:"distinct"`
	Emitted    int           `json:"emitted"`
	Mismatches []c03Mismatch `json:"mismatches,omitempty"`
	Err        string        `json:"err,omitempty"`
}

func init() {
	Drivers["C03"] = c03
}

// regex generator (RE2 syntax) with the words of the file as raw material.
func genRegex(rng *rand.Rand, words []string) string {
	w := func() string { return regexp.QuoteMeta(words[rng.Intn(len(words))]) }
	switch rng.Intn(25) {
	case 23:
		return []string{".+", "..", ".?", ".*.", "(.*)", ".+$"}[rng.Intn(6)] // next to the "everything" shortcuts
	case 24:
		return "^" + w() + "|^$"
	case 20:
		return "^" + w() + "$" // a literal anchored at both ends: whole-line match only
	case 21:
		return `\A` + w() + `\z`
	case 22:
		return "^" + w() + " " + w() + "$"
	case 16:
		return w() + "  " + w() // a run of blanks is part of the pattern
	case 17:
		return " " + w()
	case 18:
		return w() + " $"
	case 19:
		return w() + "\t" + w() // a literal tab
	case 0:
		return w()
	case 1:
		return "^" + w()
	case 2:
		return w() + "$"
	case 3:
		return "^$"
	case 4:
		return "[^0-9]"
	case 5:
		return "^[^0-9]*$"
	case 6:
		return `\s$`
	case 7:
		return w() + "|" + w()
	case 8:
		return "(?i)" + strings.ToUpper(w())
	case 9:
		return `\b` + w() + `\b`
	case 10:
		return "[[:digit:]]{2,}"
	case 11:
		return "^.{0,3}$"
	case 12:
		return "(" + w() + "|" + w() + ")+ ?[a-z]*$"
	case 13:
		return `[^\n]$`
	case 14:
		return `\S+\s+\S+`
	default:
		return "[a-c]" + w() + "?"
	}
}

func genGrepFile(rng *rand.Rand, n int) ([]string, []string) {
	words := []string{"error", "warn", "info", "GET", "POST", "timeout", "42", "7", "db1", "x", "a b", "foo$", "[x]", "tail"}
	lines := make([]string, n)
	cluster := 0
	for i := range lines {
		var parts []string
		if cluster > 0 {
			parts = append(parts, "error")
			cluster--
		} else if rng.Intn(15) == 0 {
			cluster = rng.Intn(5)
		}
		k := rng.Intn(5)
		for j := 0; j < k; j++ {
			parts = append(parts, words[rng.Intn(len(words))])
		}
		switch rng.Intn(15) {
		case 12:
			lines[i] = strings.Join(parts, "  ") // words separated by two blanks
		case 13:
			lines[i] = " " + strings.Join(parts, "\t")
		case 14:
			lines[i] = strings.Join(parts, " ") + "  x"
		case 0:
			lines[i] = "" // empty line
		case 1:
			lines[i] = strings.Join(parts, " ") + " " // trailing blank
		case 2:
			lines[i] = fmt.Sprintf("%d", rng.Intn(1000))
		default:
			lines[i] = strings.Join(parts, " ")
		}
	}
	return lines, words
}

func c03(r *vlib.Run) int {
	L := r.N(9, 13)
	r.Rule(fmt.Sprintf("exhaustive tier: every file of 0..%d lines as a selection vector x before,after,max in {0,1,2,3,5,n+1} x invert x "+
		"final newline present/absent, run through the real cat reader (fs.NewCatFile.Start) and compared with a 25-line reference "+
		"model incl. reported line numbers and content; random tier: files up to 5000 lines with clustered matches and RE2 "+
		"patterns (anchors, negated and POSIX classes, \\s, \\b, alternation, (?i), the no-op patterns) checked with Go regexp on "+
		"the bare line; e2e tier: real dgrep --plain (serverless and over SSH). distinct = distinct (file, pattern, invert, b, a, m); "+
		"non-trivial: all counted (context state machine is exercised by each).", L))
	r.Assume("the no-op patterns '', '.', '.*' select every line with and without --invert (the statement says they select every line and makes no exception for the polarity flag; the code agrees)")
	r.Assume("e2e content avoids a leading '.' and byte 0xAC (known findings of C01)")

	var cases []interface{}
	for n := 0; n <= L; n++ {
		total := uint32(1) << uint(n)
		step := uint32(64)
		if n >= 12 {
			step = 32
		}
		for lo := uint32(0); lo < total; lo += step {
			hi := lo + step
			if hi > total {
				hi = total
			}
			cases = append(cases, c03Case{Exhaustive: true, N: n, MaskLo: lo, MaskHi: hi})
		}
	}
	nEx := len(cases)
	rng := r.Rng("random")
	nRand := r.N(1500, 60000)
	var rcases []c03Case
	for i := 0; i < nRand; i++ {
		sizes := []int{0, 1, 2, 5, 30, 99, 100, 101, 250, 1000, 5000}
		n := sizes[rng.Intn(len(sizes))]
		if n >= 1000 && rng.Intn(3) != 0 {
			n = rng.Intn(300)
		}
		lines, words := genGrepFile(rng, n)
		c := c03Case{Lines: lines, FinalNL: rng.Intn(4) != 0}
		if len(lines) > 0 && lines[len(lines)-1] == "" {
			c.FinalNL = true // an empty last line only exists with its terminator
		}
		switch rng.Intn(10) {
		case 0:
			c.Pattern = []string{"", ".", ".*"}[rng.Intn(3)]
			c.Invert = rng.Intn(2) == 0 // the statement: these patterns select every line (whatever the polarity flag)
		default:
			c.Pattern = genRegex(rng, words)
			c.Invert = rng.Intn(3) == 0
		}
		if _, err := regexp.Compile(c.Pattern); err != nil {
			c.Pattern = "error"
		}
		np := 1 + rng.Intn(6)
		for k := 0; k < np; k++ {
			v := func() int { return []int{0, 0, 1, 2, 3, 7, 50, 100, 101, n + 1}[rng.Intn(10)] }
			c.Params = append(c.Params, [3]int{v(), v(), v()})
		}
		rcases = append(rcases, c)
		cases = append(cases, c)
	}
	results, crashes := r.RunBatches("c03api", cases, 40, 14, nil, nil)
	for _, cr := range crashes {
		r.Violation("reader-crash", map[string]interface{}{"case": cases[cr.Any()], "stderr": vlib.Trunc(string(cr.Result.Stderr), 3000)})
	}
	exComplete := len(crashes) == 0
	for i, raw := range results {
		if raw == nil {
			exComplete = false
			continue
		}
		var res c03Result
		json.Unmarshal(raw, &res)
		r.Evals(res.Runs)
		r.Count("lines_emitted_and_checked", res.Emitted)
		if i < nEx {
			r.Count("exhaustive_runs", res.Runs)
		} else {
			r.Count("random_runs", res.Runs)
			c := rcases[i-nEx]
			r.SetAdd("regex", c.Pattern)
			if i-nEx < 3 {
				r.Sample(map[string]interface{}{"pattern": c.Pattern, "invert": c.Invert, "params": c.Params, "n_lines": len(c.Lines),
					"first_lines": clipStrings(c.Lines, 4)})
			}
		}
		r.DistinctN(res.Distinct)
		if res.Err != "" {
			r.Violation("harness-error", map[string]interface{}{"err": res.Err, "case": cases[i]})
		}
		for _, mm := range res.Mismatches {
			r.Violation("selection-mismatch", mm)
		}
	}
	r.Sample(map[string]interface{}{"exhaustive_example": "lines m0,x1,m2 (mask 0b101), pattern ^m, before=1 after=0 max=2 => expected output lines 1,2,3"})
	r.Exhaustive(exComplete)
	r.Extra("exhaustive_bound_lines", L)
	c03E2E(r)
	return nEx
}

// c03E2E: real dgrep --plain, serverless and over SSH.
func c03E2E(r *vlib.Run) {
	n := r.N(120, 2000)
	rng := r.Rng("e2e")
	fl, err := startFleet(r, "c03", 1, map[string]interface{}{"MaxConcurrentCats": 16, "MaxConnections": 64}, nil, "error")
	if err != nil {
		r.Inconclusive("fleet-start")
	}
	defer fl.Stop()
	type ecase struct {
		c    c03Case
		ssh  bool
		path string
		slow bool // the consumer of stdout reads 2 KB every 3 ms
	}
	var ecs []ecase
	dir := r.Dir("c03e2e")
	for i := 0; i < n; i++ {
		nl := []int{0, 1, 3, 20, 100, 101, 400}[rng.Intn(7)]
		lines, words := genGrepFile(rng, nl)
		c := c03Case{Lines: lines, FinalNL: rng.Intn(4) != 0}
		if len(lines) > 0 && lines[len(lines)-1] == "" {
			c.FinalNL = true // an empty last line only exists with its terminator
		}
		if rng.Intn(10) == 0 {
			c.Pattern = []string{".", ".*"}[rng.Intn(2)]
			c.Invert = rng.Intn(2) == 0
		} else {
			c.Pattern = genRegex(rng, words)
			c.Invert = rng.Intn(3) == 0
		}
		v := func() int { return []int{0, 0, 1, 2, 3, 7, 100, nl + 1}[rng.Intn(8)] }
		c.Params = [][3]int{{v(), v(), v()}}
		body := strings.Join(lines, "\n")
		if len(lines) > 0 && c.FinalNL {
			body += "\n"
		}
		p := filepath.Join(dir, fmt.Sprintf("g%d.log", i))
		os.WriteFile(p, []byte(body), 0644)
		ssh := fl != nil && rng.Intn(3) == 0
		if i%4 == 1 && fl != nil && !isNoopPattern(ecs[i-1].c.Pattern) {
			// history on one server process: the pattern of the previous case
			// again, with the opposite flag (and other context values)
			c.Pattern, c.Invert = ecs[i-1].c.Pattern, !ecs[i-1].c.Invert
			ecs[i-1].ssh, ssh = true, true
			r.Count("e2e_pairs_same_pattern_opposite_flag_same_server", 1)
		}
		ecs = append(ecs, ecase{c: c, ssh: ssh, path: p})
	}
	// a few large files in which nearly every line is selected, read by a slow
	// consumer: hundreds of selected lines are queued behind it (no context, no
	// max: the plain filter path)
	for k := 0; k < r.N(3, 12); k++ {
		lines, words := genGrepFile(rng, 4000+500*k)
		c := c03Case{Lines: lines, FinalNL: true, Pattern: []string{".", "[a-z0-9 ]*", words[0] + "|."}[k%3], Invert: false}
		if k%3 == 1 {
			c.Pattern, c.Invert = "^zzz-no-such-line$", true
		}
		c.Params = [][3]int{{0, 0, 0}}
		p := filepath.Join(dir, fmt.Sprintf("big%d.log", k))
		os.WriteFile(p, []byte(strings.Join(lines, "\n")+"\n"), 0644)
		ecs = append(ecs, ecase{c: c, ssh: fl != nil && k%2 == 1, path: p, slow: true})
	}
	vlib.Parallel(len(ecs), 12, func(i int) {
		e := ecs[i]
		c := e.c
		p := c.Params[0]
		args := []string{"--plain", "--files", e.path, "--regex", c.Pattern}
		if c.Invert {
			args = append(args, "--invert")
		}
		if p[0] > 0 {
			args = append(args, "--before", fmt.Sprint(p[0]))
		}
		if p[1] > 0 {
			args = append(args, "--after", fmt.Sprint(p[1]))
		}
		if p[2] > 0 {
			args = append(args, "--max", fmt.Sprint(p[2]))
		}
		var res *vlib.Result
		switch {
		case e.slow:
			full := []string{"--cfg", "none", "--logger", "stdout", "--logLevel", "error"}
			env, cwd := []string{"HOME=" + serverlessHome(r)}, serverlessHome(r)
			if e.ssh {
				full = append(fl.ClientArgs(), "--logger", "stdout", "--logLevel", "error")
				env, cwd = fl.ClientEnv(), fl.Home
			}
			var out []byte
			res, out = runPaced(vlib.Cmd{Path: r.Bin("dgrep"), Args: append(full, args...), Env: env, Dir: cwd, Watchdog: 240 * time.Second},
				pacing{Kind: "slow", Chunk: 2048, DelayMs: 3}, 4096)
			res.Stdout = out
			r.Count("e2e_runs_large_selection_slow_consumer", 1)
		case e.ssh:
			res = runFleet(r, fl, "dgrep", args, nil)
		default:
			res = runServerless(r, "dgrep", args, "", nil)
		}
		r.Eval(fmt.Sprintf("e2e|%v|%s|%v|%v|%x", e.ssh, c.Pattern, c.Invert, p, hashStrings(c.Lines)))
		r.Count("e2e_runs", 1)
		if e.ssh {
			r.Count("e2e_runs_ssh", 1)
		}
		if res.TimedOut {
			r.Inconclusive("dgrep-watchdog")
			return
		}
		sel, _ := selection(c.Lines, c.Pattern, c.Invert)
		want := grepModel(sel, p[0], p[1], p[2])
		var sb strings.Builder
		for _, w := range want {
			sb.WriteString(c.Lines[w])
			if !(w == len(c.Lines)-1 && !c.FinalNL) {
				sb.WriteString("\n")
			}
		}
		if res.Hung || res.Exit != 0 || string(res.Stdout) != sb.String() {
			r.Violation("e2e-dgrep", map[string]interface{}{"ssh": e.ssh, "pattern": c.Pattern, "invert": c.Invert,
				"before": p[0], "after": p[1], "max": p[2], "final_nl": c.FinalNL, "lines": clipStrings(c.Lines, 60),
				"exit": res.Exit, "hung": res.Hung, "stdout": vlib.Trunc(string(res.Stdout), 1500), "want": vlib.Trunc(sb.String(), 1500),
				"stderr": vlib.Trunc(string(res.Stderr), 800)})
		}
		os.Remove(e.path)
	})
}
