//go:build w_c03

package props

import (
	"context"
	"encoding/json"
	"fmt"
	"github.com/mimecast/dtail/internal/io/fs"
	"github.com/mimecast/dtail/internal/io/line"
	"github.com/mimecast/dtail/internal/lcontext"
	dregex "github.com/mimecast/dtail/internal/regex"
	"github.com/mimecast/dtail/internal/source"
	"github.com/mimecast/dtail/verifharness/internal/dt"
	"github.com/mimecast/dtail/verifharness/internal/vlib"
	"os"
	"path/filepath"
	"strings"
)

func init() {
	Children["c03api"] = c03Child
}

// readerRun runs the real cat reader over path and returns the emitted lines.
func readerRun(path string, pattern string, invert bool, b, a, m int, capHint int) ([]uint64, []string, error) {
	flag := dregex.Default
	if invert {
		flag = dregex.Invert
	}
	re, err := dregex.New(pattern, flag)
	if err != nil {
		return nil, nil, err
	}
	serverMessages := make(chan string, 16)
	lines := make(chan *line.Line, capHint+8)
	ctx, cancel := context.WithCancel(context.Background())
	stop := make(chan struct{})
	go func() {
		for {
			select {
			case <-serverMessages:
			case <-stop:
				return
			}
		}
	}()
	reader := fs.NewCatFile(path, "id", serverMessages)
	err = reader.Start(ctx, lcontext.LContext{BeforeContext: b, AfterContext: a, MaxCount: m}, lines, re)
	cancel()
	close(stop)
	var counts []uint64
	var contents []string
	for {
		select {
		case l := <-lines:
			counts = append(counts, l.Count)
			contents = append(contents, l.Content.String())
		default:
			return counts, contents, err
		}
	}
}

func c03CheckOne(dir string, tag string, lines []string, finalNL bool, pattern string, invert bool, params [][3]int, res *c03Result) {
	body := strings.Join(lines, "\n")
	if len(lines) > 0 && finalNL {
		body += "\n"
	}
	path := filepath.Join(dir, tag+".txt")
	os.WriteFile(path, []byte(body), 0644)
	defer os.Remove(path)
	sel, err := selection(lines, pattern, invert)
	if err != nil {
		res.Err = err.Error()
		return
	}
	for _, p := range params {
		want := grepModel(sel, p[0], p[1], p[2])
		counts, contents, rerr := readerRun(path, pattern, invert, p[0], p[1], p[2], len(lines))
		res.Runs++
		res.Emitted += len(counts)
		why := ""
		if rerr != nil {
			why = "reader error: " + rerr.Error()
		} else if len(counts) != len(want) {
			why = fmt.Sprintf("%d lines emitted, want %d", len(counts), len(want))
		} else {
			for k := range want {
				if int(counts[k]) != want[k]+1 {
					why = fmt.Sprintf("output #%d is line %d, want line %d", k, counts[k], want[k]+1)
					break
				}
				exp := lines[want[k]] + "\n"
				if want[k] == len(lines)-1 && !finalNL {
					exp = lines[want[k]]
				}
				if contents[k] != exp {
					why = fmt.Sprintf("output #%d (line %d) has content %q, want %q", k, counts[k], contents[k], exp)
					break
				}
			}
		}
		if why != "" && len(res.Mismatches) < 5 {
			mm := c03Mismatch{Lines: clipStrings(lines, 40), FinalNL: finalNL, Pattern: pattern, Invert: invert,
				Before: p[0], After: p[1], Max: p[2], Why: why}
			for _, c := range counts {
				mm.Got = append(mm.Got, int(c))
			}
			for _, w := range want {
				mm.Want = append(mm.Want, w+1)
			}
			if len(mm.Got) > 60 {
				mm.Got = mm.Got[:60]
			}
			if len(mm.Want) > 60 {
				mm.Want = mm.Want[:60]
			}
			res.Mismatches = append(res.Mismatches, mm)
		}
	}
}

func c03ExhaustiveParams(n int) [][3]int {
	vals := []int{0, 1, 2, 3, 5, n + 1}
	var out [][3]int
	for _, b := range vals {
		for _, a := range vals {
			for _, m := range vals {
				out = append(out, [3]int{b, a, m})
			}
		}
	}
	return out
}

func c03Child(args []string) int {
	dir := args[0]
	dt.Init(source.Client, "none", "none", "error", true)
	return vlib.BatchMain(dir, func(i int, raw json.RawMessage) interface{} {
		var c c03Case
		json.Unmarshal(raw, &c)
		var res c03Result
		if c.Exhaustive {
			params := c03ExhaustiveParams(c.N)
			for mask := c.MaskLo; mask < c.MaskHi; mask++ {
				lines := make([]string, c.N)
				for k := 0; k < c.N; k++ {
					if mask&(1<<uint(k)) != 0 {
						lines[k] = fmt.Sprintf("m%d", k)
					} else {
						lines[k] = fmt.Sprintf("x%d", k)
					}
				}
				for _, nl := range []bool{true, false} {
					if c.N == 0 && !nl {
						continue
					}
					for _, inv := range []bool{false, true} {
						c03CheckOne(dir, fmt.Sprintf("e%d", i), lines, nl, "^m", inv, params, &res)
						res.Distinct += len(params)
					}
				}
			}
			return res
		}
		c03CheckOne(dir, fmt.Sprintf("r%d", i), c.Lines, c.FinalNL, c.Pattern, c.Invert, c.Params, &res)
		res.Distinct = len(c.Params)
		return res
	})
}
