//go:build w_mapr

package props

import (
	"bytes"
	"context"
	"fmt"
	"strconv"
	"strings"
	"time"

	"github.com/mimecast/dtail/internal/io/line"
	maprserver "github.com/mimecast/dtail/internal/mapr/server"
)

func runAggCase(c c06AggCase) map[string]interface{} {
	agg, err := maprserver.NewAggregate("select fid,count($line) from CONS group by fid interval 3600")
	if err != nil {
		return map[string]interface{}{"err": err.Error()}
	}
	ctx, cancel := context.WithCancel(context.Background())
	defer cancel()
	msgs := make(chan string, 10) // the session's queue has 10 slots
	total := c.Phases[0]
	for _, p := range c.Phases[1:] {
		total += p
	}
	ch := make(chan *line.Line, total+1)
	agg.NextLinesCh <- ch
	done := make(chan struct{})
	go func() {
		agg.Start(ctx, msgs)
		close(done)
	}()
	samples := 0
	nMsgs := 0
	consDone := make(chan struct{})
	go func() {
		defer close(consDone)
		for {
			select {
			case m := <-msgs:
				nMsgs++
				parts := strings.Split(m, "∥")
				if len(parts) > 1 {
					v, _ := strconv.Atoi(parts[1])
					samples += v
				}
				if c.ConsumeUs > 0 {
					time.Sleep(time.Duration(c.ConsumeUs) * time.Microsecond)
				}
			case <-done:
				// the aggregator has returned: take what is still queued
				for {
					select {
					case m := <-msgs:
						nMsgs++
						parts := strings.Split(m, "∥")
						if len(parts) > 1 {
							v, _ := strconv.Atoi(parts[1])
							samples += v
						}
					default:
						return
					}
				}
			}
		}
	}()
	seq := 0
	for pi, n := range c.Phases {
		for k := 0; k < n; k++ {
			seq++
			txt := fmt.Sprintf("INFO|1002-071209|1|m.go:1|8|14|7|0.21|471h|MAPREDUCE:CONS|fid=k%d|w=1\n", seq%c.Groups)
			ch <- line.New(bytes.NewBufferString(txt), uint64(seq), 100, "f")
		}
		for len(ch) > 0 {
			time.Sleep(time.Millisecond)
		}
		time.Sleep(3 * time.Millisecond)
		if pi < len(c.Phases)-1 {
			agg.Serialize(ctx) // a report interval elapses
		}
	}
	close(ch)
	select {
	case <-done:
	case <-time.After(60 * time.Second):
		return map[string]interface{}{"err": "aggregator did not finish", "samples": samples, "want": total}
	}
	<-consDone
	return map[string]interface{}{"samples": samples, "want": total, "messages": nMsgs}
}
