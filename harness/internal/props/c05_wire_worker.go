//go:build w_mapr

package props

import (
	"context"
	"encoding/json"
	"os"
	"strconv"
	"strings"

	"github.com/mimecast/dtail/internal/mapr"
	maprclient "github.com/mimecast/dtail/internal/mapr/client"
	"github.com/mimecast/dtail/internal/protocol"
	"github.com/mimecast/dtail/internal/source"
	"github.com/mimecast/dtail/verifharness/internal/dt"
	"github.com/mimecast/dtail/verifharness/internal/vlib"
)

func init() {
	Children["c05wire"] = c05WireChild
}

// c05WireChild: partial results of sizes no test file can produce. The real server-side aggregator runs over a small
// table (runPipeline's server half); each message it emits is then re-issued as the message a server would have sent
// had it seen every line k times: the decoded values go into a real mapr.AggregateSet (samples, counts and sums times
// k, everything else unchanged) and the real AggregateSet.Serialize produces the wire text, which the real client-side
// aggregator merges into a real global group. The result file is returned.
func c05WireChild(args []string) int {
	dir := args[0]
	dt.Init(source.Client, "none", "none", "error", true)
	return vlib.BatchMainPar(dir, 8, func(i int, raw json.RawMessage) interface{} {
		var c c05WireCase
		json.Unmarshal(raw, &c)
		return runWire(c)
	})
}

func runWire(c c05WireCase) (res c05WireResult) {
	query, err := mapr.NewQuery(c.Pipe.Query)
	if err != nil || query == nil || !query.HasOutfile() {
		res.Err = "query"
		return
	}
	// server half: collect the messages of the small table
	msgs, perr := pipelineMessages(c.Pipe)
	if perr != "" {
		res.Err = perr
		return
	}
	scaled := map[string]bool{}
	for _, sc := range query.Select {
		switch sc.Operation {
		case mapr.Count, mapr.Sum, mapr.Avg:
			scaled[sc.FieldStorage] = true
		}
	}
	global := mapr.NewGlobalGroupSet()
	ctx := context.Background()
	for si, scale := range c.Scales {
		ca := maprclient.NewAggregate("wire"+strconv.Itoa(si), query, global)
		for _, m := range msgs {
			parts := strings.Split(m, protocol.AggregateDelimiter)
			if len(parts) < 3 {
				continue
			}
			samples, _ := strconv.Atoi(parts[1])
			set := mapr.NewAggregateSet()
			set.Samples = samples * scale
			for _, kv := range parts[2:] {
				p := strings.SplitN(kv, protocol.AggregateKVDelimiter, 2)
				if len(p) != 2 {
					continue
				}
				if f, err := strconv.ParseFloat(p[1], 64); err == nil && isAggStorage(query, p[0]) {
					if scaled[p[0]] {
						f *= float64(scale)
					}
					set.FValues[p[0]] = f
				} else {
					set.SValues[p[0]] = p[1]
				}
			}
			ch := make(chan string, 1)
			set.Serialize(ctx, parts[0], ch)
			wire := <-ch
			if len(res.Samples) < 3 {
				res.Samples = append(res.Samples, wire)
			}
			ca.Aggregate(wire)
			res.Messages++
		}
	}
	os.Remove(c.Pipe.Outfile)
	if err := global.WriteResult(query, true); err != nil {
		res.Err = "WriteResult: " + err.Error()
		return
	}
	b, _ := os.ReadFile(c.Pipe.Outfile)
	res.CSV = string(b)
	os.Remove(c.Pipe.Outfile)
	os.Remove(c.Pipe.Outfile + ".query")
	return
}

// isAggStorage: the numeric aggregates travel as numbers; the value of a plain (group) column or of last() is text
// even when it looks like a number.
func isAggStorage(query *mapr.Query, storage string) bool {
	for _, sc := range query.Select {
		if sc.FieldStorage == storage {
			switch sc.Operation {
			case mapr.Count, mapr.Sum, mapr.Avg, mapr.Min, mapr.Max, mapr.Len:
				return true
			}
		}
	}
	return false
}
