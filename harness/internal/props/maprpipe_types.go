package props

// Wire types of the in-process mapreduce pipeline worker (see maprpipe.go).

type pipeFile struct {
	Lines []string `json:"lines"`
	// Cuts: after how many fed lines of this file a serialization is forced
	// (ascending positions).
	Cuts []int `json:"cuts,omitempty"`
}

type pipeServer struct {
	Host  string     `json:"host"`
	Files []pipeFile `json:"files"`
}

type pipeCase struct {
	Query   string       `json:"query"`   // query text, must contain an outfile clause pointing to Outfile
	Outfile string       `json:"outfile"` // path of the CSV
	Servers []pipeServer `json:"servers"`
	// SlowClientUs: the client side takes this many microseconds per message (a client that is slower than the server)
	SlowClientUs int `json:"slow_client_us,omitempty"`
}

type pipeResult struct {
	CSV      string `json:"csv"`
	Messages int    `json:"messages"` // serialized partial results transmitted
	Err      string `json:"err,omitempty"`
	ParseErr string `json:"parse_err,omitempty"`
}
