package props

import (
	"bufio"
	"bytes"
	"fmt"
	"hash/crc32"
	"io"
	"math/rand"
	"os"
	"os/exec"
	"path/filepath"
	"regexp"
	"strconv"
	"strings"
	"sync"
	"sync/atomic"
	"syscall"
	"time"

	"github.com/mimecast/dtail/verifharness/internal/vlib"
)

// C02 — every selected line is delivered before the session closes, at any pace.

func init() {
	Drivers["C02"] = c02
}

// pacing program of the harness-owned consumer of the client's stdout.
type pacing struct {
	Kind    string  `json:"kind"`     // fast | slow | stall
	Chunk   int     `json:"chunk"`    // slow: bytes per read
	DelayMs float64 `json:"delay_ms"` // slow: pause after each read
	StallAt int64   `json:"stall_at"` // stall: byte offset at which the consumer stops reading
	StallS  float64 `json:"stall_s"`  // stall: for how long
}

type c02File struct {
	ID    int
	Lines int
	Path  string
}

type c02Case struct {
	Mode   string // cat | grep
	Files  []c02File
	Glob   bool
	SSH    bool
	Limit  int // MaxConcurrentCats
	Pace   pacing
	Points string // VERIF_POINTS for client (serverless) / none
	// Aborts: that many sessions of other clients are killed in the middle of
	// a transfer on the same server right before this (judged) session.
	Aborts   int
	PipeSize int
	Provoke  bool // deterministic provocation of the recorded finding
	Wide     int  // > 0: every Wide-th line of each file is 40-330 KB long
	// Rotate: what happens to the (single) file 1.2 s into a read that lasts
	// about 5 s: "rename" (moved away, a shorter new file appears under the
	// name: log rotation) or "unlink". The open file is read to its end.
	Rotate string
	// Refused: the wildcard also matches a sub-directory and a dangling symbolic link (paths the server refuses to
	// read): they are answered with an error message, everything else is delivered and the session ends.
	Refused bool
}

func c02Line(file, seq int, hit bool, padLen int) string {
	pad := strings.Repeat("x", padLen)
	if hit {
		pad = "hit" + pad
	}
	body := fmt.Sprintf("F%03d#%06d#%s", file, seq, pad)
	return fmt.Sprintf("%s#%08x", body, crc32.ChecksumIEEE([]byte(body)))
}

func c02IsHit(file, seq int) bool { return (seq*7+file)%3 == 0 }

func c02WriteFile(path string, file, lines int) int64 { return c02WriteFileWide(path, file, lines, 0) }

// c02WriteFileWide: with wide > 0 every wide-th line is 40-330 KB long (more
// than the transport's copy buffer, less than MaxLineLength).
func c02WriteFileWide(path string, file, lines, wide int) int64 {
	var b bytes.Buffer
	for s := 1; s <= lines; s++ {
		pad := (s*13 + file) % 90
		if wide > 0 && s%wide == 1 {
			pad = 40000 + (s*7919+file*104729)%290000
		}
		b.WriteString(c02Line(file, s, c02IsHit(file, s), pad))
		// one file in three ends without a newline after its last line
		if s < lines || (file+lines)%3 != 0 {
			b.WriteByte('\n')
		}
	}
	if c02TailZ(file, lines) {
		b.WriteByte('z') // a last line of one byte, without newline
	}
	os.WriteFile(path, b.Bytes(), 0644)
	return int64(b.Len())
}

// consumer reads the pipe according to the pacing program.
type consumer struct {
	r       *os.File
	p       pacing
	buf     bytes.Buffer
	n       int64
	stalled int32
	done    chan struct{}
}

func (c *consumer) run() {
	defer close(c.done)
	chunk := 65536
	if c.p.Kind == "slow" && c.p.Chunk > 0 {
		chunk = c.p.Chunk
	}
	b := make([]byte, chunk)
	stalledOnce := false
	for {
		if c.p.Kind == "stall" && !stalledOnce && atomic.LoadInt64(&c.n) >= c.p.StallAt {
			stalledOnce = true
			atomic.StoreInt32(&c.stalled, 1)
			time.Sleep(time.Duration(c.p.StallS * float64(time.Second)))
			atomic.StoreInt32(&c.stalled, 0)
		}
		want := len(b)
		if c.p.Kind == "stall" && !stalledOnce {
			// do not read past the stall offset
			left := c.p.StallAt - atomic.LoadInt64(&c.n)
			if left > 0 && int64(want) > left {
				want = int(left)
			}
		}
		k, err := c.r.Read(b[:want])
		if k > 0 {
			c.buf.Write(b[:k])
			atomic.AddInt64(&c.n, int64(k))
		}
		if err != nil {
			return
		}
		if c.p.Kind == "slow" && c.p.DelayMs > 0 {
			atomic.StoreInt32(&c.stalled, 1)
			time.Sleep(time.Duration(c.p.DelayMs * float64(time.Millisecond)))
			atomic.StoreInt32(&c.stalled, 0)
		}
	}
}

const fSetPipeSz = 1031

// runPaced runs a client with a harness-owned stdout pipe.
func runPaced(cmd vlib.Cmd, p pacing, pipeSize int) (*vlib.Result, []byte) {
	return runPacedPid(cmd, p, pipeSize, nil)
}

// runPacedPid additionally reports the child's pid once it runs.
func runPacedPid(cmd vlib.Cmd, p pacing, pipeSize int, onPid func(int)) (*vlib.Result, []byte) {
	pr, pw, err := os.Pipe()
	if err != nil {
		return &vlib.Result{TimedOut: true}, nil
	}
	if pipeSize > 0 {
		syscall.Syscall(syscall.SYS_FCNTL, pw.Fd(), fSetPipeSz, uintptr(pipeSize))
	}
	c := &consumer{r: pr, p: p, done: make(chan struct{})}
	cmd.StdoutTo = pw
	cmd.OutProgress = func() int64 { return atomic.LoadInt64(&c.n) }
	callerBusy := cmd.Busy
	cmd.Busy = func() bool { return atomic.LoadInt32(&c.stalled) == 1 || (callerBusy != nil && callerBusy()) }
	// the child inherits pw at Start; the parent's copy is closed once it runs,
	// so that the consumer sees EOF when the child exits.
	cmd.OnStart = func(pid int) {
		pw.Close()
		go c.run()
		if onPid != nil {
			onPid(pid)
		}
	}
	res := vlib.RunCmd(cmd)
	pw.Close()
	if res.Pid == 0 {
		pr.Close()
		return res, nil
	}
	select {
	case <-c.done:
	case <-time.After(30 * time.Second):
	}
	pr.Close()
	return res, c.buf.Bytes()
}

type c02Obs struct {
	perFile   map[int][]int
	malformed []string
	tailZ     int // one-byte last lines seen
	// cutTail: the output ends in the beginning of a record (no newline): the
	// client exited while that line was being written
	cutTail bool
}

// c02TailZ: files that end in a one-byte line "z" without a newline (after
// their terminated records).
func c02TailZ(file, lines int) bool { return lines > 0 && (file+lines)%6 == 1 }

var c02RecRe = regexp.MustCompile(`^F([0-9]{3})#([0-9]{6})#((?:hit)?x*)#([0-9a-f]{8})`)

// c02Parse cuts the output into self-delimiting records. A record is followed
// by a newline, except the last line of a file that was written without a
// final newline (unterminated[file] = its sequence number): plain mode prints
// what the file holds, so the next file's line follows directly.
func c02Parse(out []byte, unterminated map[int]int) c02Obs {
	o := c02Obs{perFile: map[int][]int{}}
	bad := func(rest []byte) {
		if len(o.malformed) < 5 {
			o.malformed = append(o.malformed, vlib.Trunc(string(rest), 200))
		}
	}
	rest := out
	for len(rest) > 0 {
		if rest[0] == '\n' {
			rest = rest[1:] // (an empty line cannot be produced by the generated files)
			bad([]byte("<empty line>"))
			continue
		}
		if rest[0] == 'z' && (len(rest) == 1 || rest[1] == 'F' || rest[1] == 'z' || rest[1] == '\n' || bytes.HasPrefix(rest[1:], []byte("SERVER|"))) {
			// the one-byte unterminated last line of a file; what follows it is
			// printed right behind it
			o.tailZ++
			rest = rest[1:]
			if len(rest) > 0 && rest[0] == '\n' {
				bad([]byte("newline after the unterminated one-byte line"))
				rest = rest[1:]
			}
			continue
		}
		m := c02RecRe.FindSubmatchIndex(rest)
		if m == nil {
			// not a record: skip to the end of the line
			nl := bytes.IndexByte(rest, '\n')
			if nl < 0 {
				// the output ends inside a record (the client left while writing it)
				if bytes.HasPrefix(rest, []byte("F")) {
					o.cutTail = true
					break
				}
				nl = len(rest) - 1
			}
			bad(rest[:nl+1])
			rest = rest[nl+1:]
			continue
		}
		body := rest[:m[7]] // up to, not including, the '#' before the checksum
		file, _ := strconv.Atoi(string(rest[m[2]:m[3]]))
		seq, _ := strconv.Atoi(string(rest[m[4]:m[5]]))
		if fmt.Sprintf("%08x", crc32.ChecksumIEEE(body)) != string(rest[m[8]:m[9]]) {
			nl := bytes.IndexByte(rest, '\n')
			if nl < 0 {
				nl = len(rest) - 1
			}
			bad(rest[:nl+1])
			rest = rest[nl+1:]
			continue
		}
		rest = rest[m[1]:]
		if len(rest) > 0 && rest[0] == '\n' {
			rest = rest[1:]
		} else if u, ok := unterminated[file]; !ok || u != seq {
			if len(rest) > 0 {
				bad(append([]byte(fmt.Sprintf("record F%03d#%06d is not followed by a newline: ", file, seq)), rest[:min(len(rest), 80)]...))
			} else {
				bad([]byte(fmt.Sprintf("output ends without a newline after record F%03d#%06d", file, seq)))
			}
		}
		o.perFile[file] = append(o.perFile[file], seq)
	}
	return o
}

func c02Expected(c *c02Case) map[int][]int {
	exp := map[int][]int{}
	for _, f := range c.Files {
		var seqs []int
		for s := 1; s <= f.Lines; s++ {
			if c.Mode == "cat" || c02IsHit(f.ID, s) {
				seqs = append(seqs, s)
			}
		}
		exp[f.ID] = seqs
	}
	return exp
}

func c02Gen(rng *rand.Rand, i int, dir string) *c02Case {
	c := &c02Case{Mode: []string{"cat", "cat", "grep"}[rng.Intn(3)]}
	nFiles := []int{1, 1, 1, 2, 3, 7, 40}[rng.Intn(7)]
	sizes := []int{0, 1, 99, 100, 101, 199, 200, 201, 1000, 30000}
	d := filepath.Join(dir, fmt.Sprintf("c%d", i))
	os.MkdirAll(d, 0755)
	total := int64(0)
	if rng.Intn(6) == 0 {
		c.Wide = []int{3, 7, 20}[rng.Intn(3)]
	}
	for f := 0; f < nFiles; f++ {
		n := sizes[rng.Intn(len(sizes))]
		if c.Wide > 0 && n > 201 {
			n = sizes[rng.Intn(8)]
		}
		if c.Wide > 0 && nFiles > 7 && n > 101 {
			n = sizes[rng.Intn(5)]
		}
		if nFiles > 3 && n > 1000 {
			n = sizes[rng.Intn(8)]
		}
		if nFiles > 1 && n == 30000 && rng.Intn(2) == 0 {
			n = 1000
		}
		p := filepath.Join(d, fmt.Sprintf("f%02d.log", f))
		total += c02WriteFileWide(p, f, n, c.Wide)
		c.Files = append(c.Files, c02File{ID: f, Lines: n, Path: p})
	}
	c.Glob = nFiles > 1 && rng.Intn(2) == 0
	if c.Glob && rng.Intn(3) == 0 {
		c.Refused = true
		os.Mkdir(filepath.Join(d, "zz-subdir.log"), 0755)
		os.Symlink("/nonexistent/target", filepath.Join(d, "zz-dangling.log"))
	}
	c.SSH = rng.Intn(3) == 0
	c.Limit = []int{1, 2, 50}[rng.Intn(3)]
	c.PipeSize = []int{4096, 4096, 65536}[rng.Intn(3)]
	outBytes := total
	if c.Mode == "grep" {
		outBytes = total / 3
	}
	switch k := rng.Intn(10); {
	case k < 3:
		c.Pace = pacing{Kind: "fast"}
	case k < 5 && outBytes < 400*1024:
		chunk := []int{64, 512, 4096, 65536}[rng.Intn(4)]
		delay := []float64{0.1, 1, 5, 20, 50}[rng.Intn(5)]
		// keep the whole transfer below ~12 s
		reads := float64(outBytes)/float64(chunk) + 1
		if reads*delay > 12000 {
			delay = 12000 / reads
		}
		c.Pace = pacing{Kind: "slow", Chunk: chunk, DelayMs: delay}
	default:
		stall := []float64{0.15, 0.5, 2, 2, 3, 6}[rng.Intn(6)]
		lineLen := int64(70)
		offs := []int64{0, outBytes / 2, outBytes - 1, outBytes - lineLen, outBytes - 99*lineLen, outBytes - 100*lineLen, outBytes - 101*lineLen,
			outBytes - 200*lineLen, outBytes - int64(c.PipeSize) - 100*lineLen, outBytes - int64(c.PipeSize), outBytes - 150*lineLen - int64(c.PipeSize)}
		at := offs[rng.Intn(len(offs))]
		if at < 0 {
			at = 0
		}
		c.Pace = pacing{Kind: "stall", StallAt: at, StallS: stall}
	}
	return c
}

func (c *c02Case) shape() string {
	sz := 0
	for _, f := range c.Files {
		if f.Lines > sz {
			sz = f.Lines
		}
	}
	return fmt.Sprintf("%s/%s/files%d/glob%v/ssh%v/limit%d/maxlines%s/pipe%d/wide%d/%s", c.Mode, c.Pace.Kind, len(c.Files), c.Glob, c.SSH, c.Limit, sizeClass(sz), c.PipeSize, c.Wide, c.Rotate)
}

type c02Server struct {
	fl    *fleet
	trace string
	mu    sync.Mutex
	off   int
}

func c02(r *vlib.Run) int {
	min := c02Body(r)
	if r.Tier == "thorough" || os.Getenv("VERIF_FORCE_RACE") != "" {
		// secondary monitor: the same workload (reduced) against -race builds
		r.RacePass([]string{"handlers.(*baseHandler)", "handlers.(*ServerHandler)", "internal.(*Done)", "connectors.(", "fs.(*readFile)", "fs.readFile"}, func() { c02Body(r) })
	}
	return min
}

func c02Body(r *vlib.Run) int {
	r.Rule("cat and grep sessions (serverless and over SSH) whose stdout is a harness-owned pipe (4 KiB or 64 KiB) read by a pacing program " +
		"{fast; uniformly slow; one stall of 0.15-6 s at offset 0, mid, or 0/1/99/100/101/200 lines (+- the pipe size) before the end}; " +
		"files of {0,1,99,100,101,199,200,201,1000,30000} lines x {1,2,3,7,40} files per session as comma list or glob x " +
		"MaxConcurrentCats {1,2,50}. Every line carries (file, sequence number, CRC). Oracle: per file the observed sequence numbers " +
		"== the selected ones, in order, exactly once; exit status 0; not hung (logical-time rule). distinct = distinct (shape, pacing) " +
		"cases; non-trivial = at least one file with > 100 lines or more than one file.")
	r.Assume("'terminates' is decided in logical time: the child is hung iff the consumer has nothing outstanding and the child is idle on 8 consecutive samples")
	r.Assume("multi-command sessions whose hook trace shows the session shutdown beginning before a later command was received are attributed to the recorded finding c02.cmd-race if (and only if) what is missing is a suffix of each file's lines")
	n := r.N(150, 2500)
	rng := r.Rng("cases")
	dir := r.Dir("c02files")
	// server pool: one case at a time per server (traces are attributed by offset)
	var pool []*c02Server
	limits := []int{1, 2, 50, 1, 2, 50}
	for i, l := range limits {
		name := fmt.Sprintf("c02s%d", i)
		srvDir := r.Dir("srv-" + name + "-h1")
		trace := filepath.Join(srvDir, "trace.jsonl")
		fl, err := startFleet(r, name, 1, map[string]interface{}{"MaxConcurrentCats": l, "MaxConnections": 50}, []string{"VERIF_TRACE=" + trace}, "error")
		if err != nil {
			r.Inconclusive("fleet-start")
			continue
		}
		defer fl.Stop()
		pool = append(pool, &c02Server{fl: fl, trace: trace})
	}
	cfgs := map[int]string{}
	for _, l := range []int{1, 2, 50} {
		p := filepath.Join(r.Dir("c02cfg"), fmt.Sprintf("l%d.json", l))
		os.WriteFile(p, []byte(fmt.Sprintf(`{"Server":{"MaxConcurrentCats":%d}}`, l)), 0644)
		cfgs[l] = p
	}
	cases := make([]*c02Case, 0, n+1)
	// deterministic provocation of c02.cmd-race: the client pauses between commands
	prov := &c02Case{Mode: "cat", Glob: false, SSH: false, Limit: 2, Pace: pacing{Kind: "fast"}, Points: "cli.cmd.sent=sleep(400)", PipeSize: 65536, Provoke: true}
	{
		d := filepath.Join(dir, "provoke")
		os.MkdirAll(d, 0755)
		for f := 0; f < 2; f++ {
			p := filepath.Join(d, fmt.Sprintf("f%02d.log", f))
			c02WriteFile(p, f, 50)
			prov.Files = append(prov.Files, c02File{ID: f, Lines: 50, Path: p})
		}
	}
	cases = append(cases, prov)
	for i := 0; i < n; i++ {
		cases = append(cases, c02Gen(rng, i, dir))
	}
	// consumers that are far behind when the server has long finished: output
	// that fits into the transport's window (2 MiB), consumer stalled 13-16 s
	nLong := r.N(3, 24)
	for k := 0; k < nLong; k++ {
		c := &c02Case{Mode: "cat", SSH: true, Limit: 2, PipeSize: 4096,
			Pace: pacing{Kind: "stall", StallAt: int64(30000 + 7919*k), StallS: 13 + float64(k%4)}}
		d := filepath.Join(dir, fmt.Sprintf("long%d", k))
		os.MkdirAll(d, 0755)
		p := filepath.Join(d, "f00.log")
		c02WriteFile(p, 0, 9000+500*k)
		c.Files = []c02File{{ID: 0, Lines: 9000 + 500*k, Path: p}}
		cases = append([]*c02Case{c}, cases...)
	}
	// the file is rotated or removed while a slow consumer keeps the read going
	// for several seconds (beyond the reader's 3 s housekeeping period)
	nRot := r.N(3, 16)
	for k := 0; k < nRot; k++ {
		lines := 6000 + 400*k
		c := &c02Case{Mode: []string{"cat", "grep"}[k%2], SSH: k%3 == 2, Limit: 2, PipeSize: 4096, Rotate: []string{"rename", "unlink"}[(k/2)%2]}
		d := filepath.Join(dir, fmt.Sprintf("rot%d", k))
		os.MkdirAll(d, 0755)
		p := filepath.Join(d, "f00.log")
		total := c02WriteFile(p, 0, lines)
		if c.Mode == "grep" {
			total /= 3
		}
		// about 5 s for the whole output
		c.Pace = pacing{Kind: "slow", Chunk: 4096, DelayMs: 5000 / (float64(total)/4096 + 1)}
		c.Files = []c02File{{ID: 0, Lines: lines, Path: p}}
		cases = append([]*c02Case{c}, cases...)
	}
	if len(pool) == 0 {
		for _, c := range cases {
			c.SSH = false
		}
	}
	for i, c := range cases {
		if c.SSH && i%3 == 0 {
			c.Aborts = 2 // >= the cat limit of two thirds of the servers
		}
	}
	var poolMu sync.Mutex
	free := make(chan *c02Server, len(pool))
	for _, s := range pool {
		free <- s
	}
	_ = poolMu
	var silence sync.WaitGroup
	silence.Add(2)
	go func() { defer silence.Done(); c02Silence(r) }()
	go func() { defer silence.Done(); c02SlowStart(r) }()
	defer silence.Wait()
	vlib.Parallel(len(cases), 12, func(i int) {
		c := cases[i]
		c02Run(r, i, c, cfgs, free)
		if len(c.Files) > 0 {
			os.RemoveAll(filepath.Dir(c.Files[0].Path))
		}
	})
	return n / 2
}

// c02Silence: grep sessions in which nothing is selected for seconds while the read goes on: a file of a few hundred
// megabytes whose selected lines are its first lines and its last lines only. Nothing travels towards the client during
// the scan; the session must neither end early nor lose the lines selected at the end (serverless and over SSH).
func c02Silence(r *vlib.Run) {
	dir := r.Dir("c02silence")
	defer os.RemoveAll(dir)
	path := filepath.Join(dir, "f00.log")
	f, err := os.Create(path)
	if err != nil {
		r.Inconclusive("silence-file")
		return
	}
	lines := 990000 // (sequence numbers have six digits) ~350 / ~550 bytes each: 3-6 s of scanning on an idle core
	padBase := r.N(320, 520)
	w := bufio.NewWriterSize(f, 1<<20)
	var want []int
	for s := 1; s <= lines; s++ {
		hit := s <= 3 || s > lines-3
		if hit {
			want = append(want, s)
		}
		w.WriteString(c02Line(0, s, hit, padBase+(s*13)%30))
		w.WriteByte('\n')
	}
	w.Flush()
	f.Close()
	fl, err := startFleet(r, "c02quiet", 1, map[string]interface{}{"MaxConcurrentCats": 2, "MaxConnections": 20}, nil, "error")
	if err == nil {
		defer fl.Stop()
	}
	type run struct {
		name string
		ssh  bool
	}
	runs := []run{{"serverless", false}, {"ssh", true}}
	if r.Thorough() {
		runs = append(runs, run{"serverless-2", false}, run{"ssh-2", true})
	}
	vlib.Parallel(len(runs), 2, func(k int) {
		ru := runs[k]
		args := []string{"--plain", "--files", path, "--regex", "#hit"}
		var res *vlib.Result
		var out []byte
		start := time.Now()
		if ru.ssh {
			if fl == nil {
				r.Inconclusive("fleet-start")
				return
			}
			full := append(append(fl.ClientArgs(), "--logger", "stdout", "--logLevel", "error"), args...)
			// (the client is legitimately idle while the server scans for many seconds: hung only if the server is idle too)
			res, out = runPaced(vlib.Cmd{Path: r.Bin("dgrep"), Args: full, Env: fl.ClientEnv(), Dir: fl.Home, Watchdog: 300 * time.Second, Busy: vlib.PidsBusy(fl.Servers[0].D.Pid())}, pacing{Kind: "fast"}, 65536)
		} else {
			home := serverlessHome(r)
			full := append([]string{"--cfg", "none", "--logger", "stdout", "--logLevel", "error"}, args...)
			res, out = runPaced(vlib.Cmd{Path: r.Bin("dgrep"), Args: full, Env: []string{"HOME=" + home}, Dir: home, Watchdog: 240 * time.Second}, pacing{Kind: "fast"}, 65536)
		}
		r.Eval("silence|" + ru.name)
		r.Count("sessions_with_seconds_of_silence_while_the_read_goes_on", 1)
		r.Max("silent_session_longest_wall_ms", int(time.Since(start).Milliseconds()))
		if res.TimedOut {
			r.Inconclusive("dgrep-watchdog")
			return
		}
		obs := c02Parse(out, nil)
		got := obs.perFile[0]
		if res.Exit != 0 || res.Hung || len(obs.malformed) > 0 || obs.cutTail || !equalInts(got, want) {
			r.Violation("lines-lost-duplicated-or-reordered", map[string]interface{}{"scenario": "grep over " + fmt.Sprint(lines) + " lines of which only the first three and the last three are selected (" + ru.name + ")",
				"exit": res.Exit, "hung": res.Hung, "selected": want, "delivered": got, "damaged_records": len(obs.malformed), "stderr": vlib.Trunc(string(res.Stderr), 800)})
		}
	})
}

// c02SlowStart: the server does not answer for 6-8 s when the client starts (a busy machine, a stopped process): the
// connection is ready long after the client began. Everything requested must still be delivered (one command: a
// wildcard over two files; and a comma list, judged like every multi-command session).
func c02SlowStart(r *vlib.Run) {
	fl, err := startFleet(r, "c02slow", 1, map[string]interface{}{"MaxConcurrentCats": 2, "MaxConnections": 20}, nil, "error")
	if err != nil {
		r.Inconclusive("fleet-start")
		return
	}
	defer fl.Stop()
	dir := r.Dir("c02slowfiles")
	defer os.RemoveAll(dir)
	want := map[int][]int{}
	for f := 0; f < 2; f++ {
		c02WriteFile(filepath.Join(dir, fmt.Sprintf("f%02d.log", f)), f, 299)
		for q := 1; q <= 299; q++ {
			want[f] = append(want[f], q)
		}
	}
	pid := fl.Servers[0].D.Pid()
	for k := 0; k < r.N(2, 6); k++ {
		stopFor := time.Duration(6000+700*k) * time.Millisecond
		syscall.Kill(pid, syscall.SIGSTOP)
		timer := time.AfterFunc(stopFor, func() { syscall.Kill(pid, syscall.SIGCONT) })
		full := append(append(fl.ClientArgs(), "--logger", "stdout", "--logLevel", "error"), "--plain", "--files", filepath.Join(dir, "f0*.log"))
		res, out := runPaced(vlib.Cmd{Path: r.Bin("dcat"), Args: full, Env: fl.ClientEnv(), Dir: fl.Home, Watchdog: 240 * time.Second}, pacing{Kind: "fast"}, 65536)
		timer.Stop()
		syscall.Kill(pid, syscall.SIGCONT)
		r.Eval(fmt.Sprintf("slow-start|%d", k))
		r.Count("sessions_whose_server_answered_only_after_seconds", 1)
		if res.TimedOut {
			r.Inconclusive("dcat-watchdog")
			continue
		}
		obs := c02Parse(out, map[int]int{1: 299}) // file 1 ends without a final newline ((file+lines)%3 == 0)
		ok := res.Exit == 0 && !res.Hung && len(obs.malformed) == 0 && !obs.cutTail
		for f := 0; f < 2; f++ {
			if !equalInts(obs.perFile[f], want[f]) {
				ok = false
			}
		}
		if !ok {
			kind := "lines-lost-duplicated-or-reordered"
			if res.Hung {
				kind = "session-did-not-terminate"
			}
			r.Violation(kind, map[string]interface{}{"scenario": fmt.Sprintf("server stopped (SIGSTOP) for %v while the client starts; two files of 299 lines behind one wildcard", stopFor),
				"exit": res.Exit, "hung": res.Hung, "lines_file_0": len(obs.perFile[0]), "lines_file_1": len(obs.perFile[1]), "damaged_records": len(obs.malformed), "stderr": vlib.Trunc(string(res.Stderr), 800)})
		}
	}
}

func c02Run(r *vlib.Run, i int, c *c02Case, cfgs map[int]string, free chan *c02Server) {
	var paths []string
	for _, f := range c.Files {
		paths = append(paths, f.Path)
	}
	filesArg := strings.Join(paths, ",")
	if c.Glob {
		filesArg = filepath.Join(filepath.Dir(paths[0]), "*.log")
	}
	bin := "dcat"
	args := []string{"--plain", "--files", filesArg}
	if c.Mode == "grep" {
		bin = "dgrep"
		args = append(args, "--regex", "#hit")
	}
	var res *vlib.Result
	var out []byte
	var evs []hookEvent
	var onStart func(int)
	if c.Rotate != "" {
		stopRot := make(chan struct{})
		defer close(stopRot)
		armed := make(chan struct{})
		var armOnce sync.Once
		onStart = func(int) { armOnce.Do(func() { close(armed) }) }
		go func() {
			// 1.2 s after the client process was started
			select {
			case <-armed:
			case <-stopRot:
				return
			}
			select {
			case <-time.After(1200 * time.Millisecond):
			case <-stopRot:
				return
			}
			p := c.Files[0].Path
			if c.Rotate == "rename" {
				os.Rename(p, p+".1")
				os.WriteFile(p, []byte("a new and much shorter file under the old name\n"), 0644)
			} else {
				os.Remove(p)
			}
			r.Count("files_rotated_or_removed_during_a_slow_read", 1)
		}()
	}
	traceFile := filepath.Join(r.Dir("c02trace"), fmt.Sprintf("t%d.jsonl", i))
	if c.SSH {
		srv := <-free
		for a := 0; a < c.Aborts; a++ {
			c02AbortedSession(r, srv)
		}
		// the server's limit decides; pick up the trace written during this case
		before := len(readTrace(srv.trace))
		full := append(srv.fl.ClientArgs(), "--logger", "stdout", "--logLevel", "error")
		full = append(full, args...)
		res, out = runPacedPid(vlib.Cmd{Path: r.Bin(bin), Args: full, Env: srv.fl.ClientEnv(), Dir: srv.fl.Home, Watchdog: 240 * time.Second}, c.Pace, c.PipeSize, onStart)
		time.Sleep(30 * time.Millisecond)
		all := readTrace(srv.trace)
		if len(all) >= before {
			evs = all[before:]
		}
		free <- srv
	} else {
		home := serverlessHome(r)
		full := append([]string{"--cfg", cfgs[c.Limit], "--logger", "stdout", "--logLevel", "error"}, args...)
		env := []string{"HOME=" + home, "VERIF_TRACE=" + traceFile}
		if c.Points != "" {
			env = append(env, "VERIF_POINTS="+c.Points)
		}
		res, out = runPacedPid(vlib.Cmd{Path: r.Bin(bin), Args: full, Env: env, Dir: home, Watchdog: 240 * time.Second}, c.Pace, c.PipeSize, onStart)
		evs = readTrace(traceFile)
		os.Remove(traceFile)
	}
	nonTrivial := len(c.Files) > 1
	for _, f := range c.Files {
		if f.Lines > 100 {
			nonTrivial = true
		}
	}
	key := ""
	if nonTrivial {
		key = fmt.Sprintf("%s|%+v", c.shape(), c.Pace)
	}
	r.Eval(key)
	r.SetAdd("cell", c.shape())
	// interleaving signature of this session's hook events
	var sig []string
	for _, e := range evs {
		if strings.HasPrefix(e.Name, "srv.cmd.") || strings.HasPrefix(e.Name, "srv.shutdown.") {
			sig = append(sig, e.Name)
		}
	}
	r.SetAdd("hook_order_signatures", fmt.Sprintf("%x", hashStrings(sig)))
	if i < 3 {
		r.Sample(map[string]interface{}{"shape": c.shape(), "pacing": c.Pace, "files": len(c.Files), "hook_events": clipStrings(sig, 12)})
	}
	if res.TimedOut {
		r.Inconclusive("client-watchdog")
		return
	}
	exp := c02Expected(c)
	unterminated := map[int]int{}
	for _, f := range c.Files {
		if f.Lines > 0 && (f.ID+f.Lines)%3 == 0 {
			unterminated[f.ID] = f.Lines
		}
	}
	obs := c02Parse(out, unterminated)
	wantZ := 0
	for _, f := range c.Files {
		if c02TailZ(f.ID, f.Lines) && c.Mode == "cat" {
			wantZ++
		}
	}
	if c.Refused {
		r.Count("sessions_whose_wildcard_also_matches_paths_the_server_refuses", 1)
		var keep []string
		for _, m := range obs.malformed {
			if strings.HasPrefix(m, "SERVER|") && (strings.Contains(m, "No permission to read file") || strings.Contains(m, "Unable to evaluate symlinks") || strings.Count(m, "|") == 2) {
				continue // the server's answer about a refused path is not content
			}
			keep = append(keep, m)
		}
		obs.malformed = keep
	}
	if c.Rotate != "" {
		// the server's own message about the state of the file at the end of
		// the read (text empty when the server logs errors only) is not content
		var keep []string
		for _, m := range obs.malformed {
			if strings.HasPrefix(m, "SERVER|") && (strings.Contains(m, "File got truncated") || strings.Count(m, "|") == 2) {
				r.Count("server_messages_about_the_rotated_file", 1)
				continue
			}
			keep = append(keep, m)
		}
		obs.malformed = keep
	}
	detail := func() map[string]interface{} {
		var sizes []int
		for _, f := range c.Files {
			sizes = append(sizes, f.Lines)
		}
		missing := map[int]string{}
		for id, want := range exp {
			got := obs.perFile[id]
			if len(got) != len(want) {
				missing[id] = fmt.Sprintf("got %d of %d lines", len(got), len(want))
			}
		}
		return map[string]interface{}{"mode": c.Mode, "file_lines": sizes, "glob": c.Glob, "ssh": c.SSH, "limit": c.Limit, "pacing": c.Pace,
			"pipe_size": c.PipeSize, "exit": res.Exit, "hung": res.Hung, "short_files": missing, "malformed_lines": obs.malformed,
			"one_byte_last_lines_seen": obs.tailZ, "one_byte_last_lines_expected": wantZ, "output_ends_inside_a_record": obs.cutTail,
			"hook_events": clipStrings(sig, 60), "stderr": vlib.Trunc(string(res.Stderr), 1500), "stdout_bytes": len(out), "points": c.Points}
	}
	// compare
	exact := len(obs.malformed) == 0
	suffixLossOnly := len(obs.malformed) == 0
	lost := 0
	for id, want := range exp {
		got := obs.perFile[id]
		if !equalInts(got, want) {
			exact = false
		}
		if len(got) > len(want) || !equalInts(got, want[:len(got)]) {
			suffixLossOnly = false
		}
		lost += len(want) - len(got)
	}
	// output that ends inside a record: never exact; in a multi-command session
	// hit by the recorded command race it is the end of what was delivered
	// (c07.cmd-race-tail), so it does not spoil "only a suffix is missing"
	if obs.cutTail {
		exact = false
		lost++
	}
	// the one-byte last lines: each is the very end of its file
	if obs.tailZ != wantZ {
		exact = false
		if obs.tailZ > wantZ {
			suffixLossOnly = false
		} else {
			lost += wantZ - obs.tailZ
		}
	}
	for id := range obs.perFile {
		if _, ok := exp[id]; !ok {
			exact, suffixLossOnly = false, false
		}
	}
	r.Count("lines_checked", func() int {
		n := 0
		for _, g := range obs.perFile {
			n += len(g)
		}
		return n
	}())
	if exact && res.Exit == 0 && !res.Hung {
		return
	}
	// recorded finding c02.cmd-race? only multi-command sessions, only suffix loss,
	// and the trace must show the shutdown beginning before a later command was
	// received (or commands never received at all).
	multiCmd := len(c.Files) > 1 && !c.Glob
	if multiCmd && suffixLossOnly && lost > 0 && !res.Hung && res.Exit == 0 {
		// per handler (session)
		handlers := map[string]bool{}
		for _, e := range evs {
			if len(e.KV) > 0 && strings.HasPrefix(e.Name, "srv.cmd.") {
				handlers[e.KV[0]] = true
			}
		}
		race := false
		for h := range handlers {
			if cmdRaceInTrace(evs, h, len(c.Files)) {
				race = true
			}
		}
		if race {
			if r.Known("c02.cmd-race", "multi-command session closed after the commands received so far finished; later files' lines not delivered") {
				r.Count("cmd_race_sessions", 1)
				return
			}
		}
	}
	what := "lines-lost-duplicated-or-reordered"
	if res.Hung {
		what = "session-did-not-terminate"
	} else if res.Exit != 0 {
		what = "exit-status"
	}
	r.Violation(what, detail())
}

// cmdRaceInTrace decides whether a session's hook events show the recorded
// command race (c02.cmd-race): all commands received so far were finished
// (the session was about to shut down, or had begun to) when a later command
// was received, or fewer commands than the client sent were received at all.
// srv.cmd.recv is logged after the command was counted, srv.cmd.done before it
// is discounted and srv.shutdown.begin after the decision to shut down, so "all
// received commands done" can precede a later recv in the trace while the
// shutdown's own event follows it. handler == "" takes all events.
func cmdRaceInTrace(evs []hookEvent, handler string, wantCmds int) bool {
	recv, done := 0, 0
	idle := false // every command received so far is done
	shutdown := false
	race := false
	for _, e := range evs {
		if handler != "" && (len(e.KV) == 0 || e.KV[0] != handler) {
			continue
		}
		switch e.Name {
		case "srv.cmd.recv":
			if len(e.KV) > 1 && e.KV[1] == ".ack" {
				continue
			}
			if (idle || shutdown) && recv > 0 {
				race = true
			}
			recv++
			idle = false
		case "srv.cmd.done":
			if len(e.KV) > 1 && e.KV[1] == ".ack" {
				continue
			}
			done++
			idle = done >= recv
		case "srv.shutdown.begin":
			shutdown = true
		}
	}
	return race || (shutdown && recv < wantCmds)
}

var c02BigOnce sync.Once
var c02BigFile string

// c02AbortedSession: a client whose output nobody reads is killed while the
// server is blocked sending to it (Ctrl-C, "| head", dropped connection).
func c02AbortedSession(r *vlib.Run, srv *c02Server) {
	c02BigOnce.Do(func() {
		c02BigFile = filepath.Join(r.Dir("c02big"), "big.log")
		c02WriteFile(c02BigFile, 999, 120000)
	})
	full := append(srv.fl.ClientArgs(), "--logger", "stdout", "--logLevel", "error", "--plain", "--files", c02BigFile)
	cmd := exec.Command(r.Bin("dcat"), full...)
	cmd.Env = append(vlib.BaseEnv(""), srv.fl.ClientEnv()...)
	cmd.Dir = srv.fl.Home
	pr, pw, err := os.Pipe()
	if err != nil {
		return
	}
	cmd.Stdout = pw
	if err := cmd.Start(); err != nil {
		pr.Close()
		pw.Close()
		return
	}
	pw.Close()
	time.Sleep(500 * time.Millisecond)
	cmd.Process.Kill()
	cmd.Wait()
	pr.Close()
	r.Count("aborted_sessions_before_judged_ones", 1)
}

func equalInts(a, b []int) bool {
	if len(a) != len(b) {
		return false
	}
	for i := range a {
		if a[i] != b[i] {
			return false
		}
	}
	return true
}

var _ = io.EOF
