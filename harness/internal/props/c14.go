package props

import (
	"fmt"
	"math/rand"
	"net"
	"os"
	"os/exec"
	"regexp"
	"strconv"
	"sync"
	"time"

	"github.com/anishathalye/porcupine"
	"github.com/mimecast/dtail/verifharness/internal/vlib"
	"golang.org/x/crypto/ssh"
)

// C14 — connection slots are bounded by MaxConnections and always given back.

func init() {
	Drivers["C14"] = c14
}

var statsRe = regexp.MustCompile(`currentConnections=(-?\d+)`)

func c14Stats(srv *vlib.Server) []int {
	var out []int
	for _, m := range statsRe.FindAllSubmatch(srv.D.Log(), -1) {
		v, _ := strconv.Atoi(string(m[1]))
		out = append(out, v)
	}
	return out
}

type c14Conn struct {
	client *ssh.Client
	raw    net.Conn
	kind   string
}

func (c *c14Conn) close(abrupt bool) {
	if c.client != nil {
		if abrupt && c.raw != nil {
			if tc, ok := c.raw.(*net.TCPConn); ok {
				tc.SetLinger(0)
			}
			c.raw.Close()
		}
		c.client.Close()
	} else if c.raw != nil {
		c.raw.Close()
	}
}

type c14Driver struct {
	addr string
	key  *vlib.Key
}

// dial authenticates; returns client (nil if the handshake failed).
func (d *c14Driver) dial(user string, auth ssh.AuthMethod) (*ssh.Client, net.Conn, error) {
	cfg := &ssh.ClientConfig{User: user, Auth: []ssh.AuthMethod{auth}, HostKeyCallback: ssh.InsecureIgnoreHostKey(), Timeout: 10 * time.Second}
	raw, err := net.DialTimeout("tcp", d.addr, 10*time.Second)
	if err != nil {
		return nil, nil, err
	}
	raw.SetDeadline(time.Now().Add(30 * time.Second))
	cc, chans, reqs, err := ssh.NewClientConn(raw, d.addr, cfg)
	if err != nil {
		raw.Close()
		return nil, nil, err
	}
	raw.SetDeadline(time.Time{})
	return ssh.NewClient(cc, chans, reqs), raw, nil
}

// connect opens an authenticated connection of the given behaviour and
// reports whether the server serves it (accepted) or refuses it.
func (d *c14Driver) connect(kind string) (bool, *c14Conn) {
	var client *ssh.Client
	var raw net.Conn
	var err error
	if kind == "health" {
		client, raw, err = d.dial("DTAIL-HEALTH", ssh.Password("DTAIL-HEALTH"))
	} else {
		client, raw, err = d.dial("tester", ssh.PublicKeys(d.key.Signer))
	}
	if err != nil {
		return false, nil
	}
	c := &c14Conn{client: client, raw: raw, kind: kind}
	// Served or refused? A refused connection is closed by the server right
	// after authentication; a served one answers global requests.
	done := make(chan error, 1)
	go func() {
		_, _, e := client.SendRequest("keepalive@verif", true, nil)
		done <- e
	}()
	select {
	case e := <-done:
		if e != nil {
			client.Close()
			return false, nil
		}
	case <-time.After(20 * time.Second):
		client.Close()
		return false, nil
	}
	openShell := func() error {
		s, err := client.NewSession()
		if err != nil {
			return err
		}
		s.StdinPipe()
		s.StdoutPipe()
		return s.Shell()
	}
	switch kind {
	case "nochannel":
	case "shell1", "health":
		openShell()
	case "chan3":
		for i := 0; i < 3; i++ {
			openShell()
		}
	case "shell3":
		if s, err := client.NewSession(); err == nil {
			for i := 0; i < 3; i++ {
				if !c14Request(s, "shell", true) {
					break // a server that stops answering must not hang the harness
				}
			}
		}
	case "badchannel":
		client.OpenChannel("direct-tcpip", nil)
	}
	return true, c
}

// c14Request sends a channel request and waits for the reply at most 15 s.
func c14Request(s *ssh.Session, name string, wantReply bool) bool {
	done := make(chan bool, 1)
	go func() {
		ok, err := s.SendRequest(name, wantReply, nil)
		done <- err == nil && (ok || !wantReply)
	}()
	select {
	case ok := <-done:
		return ok
	case <-time.After(15 * time.Second):
		return false
	}
}

// syncBurst: k clients run their handshake up to the point where they must
// present their credentials, wait for each other, and then all authenticate at
// the same instant, so that the server finishes k handshakes simultaneously.
func (d *c14Driver) syncBurst(k int) []*c14Conn {
	var arrived, wg sync.WaitGroup
	release := make(chan struct{})
	arrived.Add(k)
	res := make([]*c14Conn, k)
	for i := 0; i < k; i++ {
		wg.Add(1)
		go func(i int) {
			defer wg.Done()
			once := sync.Once{}
			auth := ssh.PublicKeysCallback(func() ([]ssh.Signer, error) {
				once.Do(func() { arrived.Done(); <-release })
				return []ssh.Signer{d.key.Signer}, nil
			})
			client, raw, err := d.dial("tester", auth)
			once.Do(func() { arrived.Done() }) // dial failed before authentication
			if err != nil {
				return
			}
			done := make(chan error, 1)
			go func() {
				_, _, e := client.SendRequest("keepalive@verif", true, nil)
				done <- e
			}()
			select {
			case e := <-done:
				if e != nil {
					client.Close()
					return
				}
			case <-time.After(20 * time.Second):
				client.Close()
				return
			}
			res[i] = &c14Conn{client: client, raw: raw, kind: "syncburst"}
		}(i)
	}
	arrived.Wait()
	close(release)
	wg.Wait()
	var out []*c14Conn
	for _, c := range res {
		if c != nil {
			out = append(out, c)
		}
	}
	return out
}

// noise performs an operation which must not take a slot.
func (d *c14Driver) noise(rng *rand.Rand, wrongKey *vlib.Key) string {
	switch k := rng.Intn(5); k {
	case 0:
		c, _, err := d.dial("tester", ssh.Password("nope"))
		if err == nil {
			c.Close()
		}
		return "wrong-password"
	case 1:
		c, _, err := d.dial("tester", ssh.PublicKeys(wrongKey.Signer))
		if err == nil {
			c.Close()
		}
		return "wrong-key"
	case 2:
		if raw, err := net.DialTimeout("tcp", d.addr, 5*time.Second); err == nil {
			raw.Close()
		}
		return "tcp-connect-close"
	case 3:
		if raw, err := net.DialTimeout("tcp", d.addr, 5*time.Second); err == nil {
			raw.Write([]byte("SSH-2.0-verif\r\n"))
			time.Sleep(20 * time.Millisecond)
			raw.Close()
		}
		return "close-mid-handshake"
	default:
		c, _, err := d.dial("nobody-"+fmt.Sprint(rng.Intn(9)), ssh.Password("x"))
		if err == nil {
			c.Close()
		}
		return "unknown-user"
	}
}

type c14In struct {
	Op string // connect | close
}

func c14(r *vlib.Run) int {
	min := c14Body(r)
	if r.Tier == "thorough" || os.Getenv("VERIF_FORCE_RACE") != "" {
		// secondary monitor: the same workload (reduced) against -race builds
		r.RacePass([]string{"server.(*stats)", "server.(*Server).handleConnection", "server.(*Server).listenerLoop"}, func() { c14Body(r) })
	}
	return min
}

// c14DescriptorShortage: a server that runs out of file descriptors for a while (more connection attempts at once than
// its RLIMIT_NOFILE allows - the limit is lowered from outside with prlimit(1)). Once the attempts are gone again,
// fewer connections than MaxConnections are open and a new one must be accepted and served.
func c14DescriptorShortage(r *vlib.Run) {
	if _, err := exec.LookPath("prlimit"); err != nil {
		r.Count("descriptor_shortage_skipped_no_prlimit", 1)
		return
	}
	key := clientKey()
	rounds := r.N(1, 4)
	for k := 0; k < rounds; k++ {
		spec := &vlib.ServerSpec{Name: fmt.Sprintf("c14nofile%d", k), Server: map[string]interface{}{"MaxConnections": 5}, LogLevel: "info",
			Users: map[string][]string{"tester": {key.AuthKey}}}
		srv, err := r.StartServer(spec)
		if err != nil {
			r.Inconclusive("server-start")
			return
		}
		d := &c14Driver{addr: srv.Addr(), key: key}
		ok0, c0 := d.connect("shell1")
		if c0 != nil {
			c0.client.Close()
		}
		if out, err := exec.Command("prlimit", "--nofile=64:64", "--pid", fmt.Sprint(srv.D.Pid())).CombinedOutput(); err != nil || !ok0 {
			r.Inconclusive("prlimit: " + vlib.Trunc(string(out), 100))
			srv.Stop()
			continue
		}
		var held []net.Conn
		for i := 0; i < 150+50*k; i++ {
			if c, err := net.DialTimeout("tcp", srv.Addr(), 3*time.Second); err == nil {
				held = append(held, c)
			}
		}
		time.Sleep(1500 * time.Millisecond)
		for _, c := range held {
			c.Close()
		}
		r.Eval(fmt.Sprintf("descriptor-shortage|%d", k))
		r.Count("descriptor_shortage_rounds", 1)
		r.Count("descriptor_shortage_connections_held", len(held))
		served := false
		deadline := time.Now().Add(25 * time.Second)
		attempts := 0
		for !served && time.Now().Before(deadline) && srv.D.Alive() {
			time.Sleep(700 * time.Millisecond)
			attempts++
			ok, c := d.connect("shell1")
			if c != nil {
				c.client.Close()
			}
			served = ok
		}
		if !srv.D.Alive() {
			r.Violation("server-died", map[string]interface{}{"scenario": "more connection attempts at once than the server has file descriptors", "log": vlib.Trunc(string(srv.D.Log()), 2500)})
		} else if !served {
			r.Violation("connection-refused-although-slots-free", map[string]interface{}{"scenario": fmt.Sprintf("%d simultaneous TCP connections against a server limited to 64 descriptors, all closed again; MaxConnections=5, nothing open", len(held)),
				"probe_attempts_over_25_s": attempts, "stats_values_logged": c14Stats(srv)})
		}
		srv.Stop()
	}
}

func c14Body(r *vlib.Run) int {
	r.Rule("histories of {key login without channel, +1 shell, +3 channels, +3 shell requests on one channel, health login, non-session " +
		"channel, unknown request type, wrong password/key/user, raw TCP connect+close before/mid handshake, orderly and abrupt (RST) " +
		"close} against servers with MaxConnections in {1,3,5}; oracles at quiescent points: probe accepted iff open < Max; last reported " +
		"currentConnections == open and every reported value in [0,Max]; bursts of up to 4xMax simultaneous logins serve exactly " +
		"min(k, Max-open); concurrent connect/close phases are recorded (call/return from one monotonic clock) and checked with " +
		"porcupine against a sequential counter. distinct = distinct operation sequences; non-trivial = history with >= 3 operations.")
	r.Assume("a connection counts as served iff it answers a global request after authentication; a refused one is closed by the server")
	var shortage sync.WaitGroup
	shortage.Add(1)
	go func() { defer shortage.Done(); c14DescriptorShortage(r) }()
	defer shortage.Wait()
	nHist := r.N(150, 3000)
	rng := r.Rng("hist")
	key := clientKey()
	wrongKey, _ := vlib.GenKey("ed25519")
	seeds := make([]int64, nHist)
	for i := range seeds {
		seeds[i] = rng.Int63()
	}
	vlib.Parallel(nHist, 6, func(hi int) {
		hrng := rand.New(rand.NewSource(seeds[hi]))
		max := []int{1, 3, 5}[hrng.Intn(3)]
		spec := &vlib.ServerSpec{
			Name:     fmt.Sprintf("c14h%d", hi),
			Server:   map[string]interface{}{"MaxConnections": max},
			LogLevel: "info",
			Users:    map[string][]string{"tester": {key.AuthKey}},
		}
		srv, err := r.StartServer(spec)
		if err != nil {
			r.Inconclusive("server-start")
			return
		}
		defer srv.Stop()
		d := &c14Driver{addr: srv.Addr(), key: key}
		var open []*c14Conn
		var trace []string
		fail := func(what string, detail map[string]interface{}) {
			detail["max_connections"] = max
			detail["history"] = trace
			detail["open_by_model"] = len(open)
			detail["stats_values_logged"] = c14Stats(srv)
			r.Violation(what, detail)
		}
		// quiescence: wait until the server's reported count equals the model
		quiesce := func() bool {
			deadline := time.Now().Add(15 * time.Second)
			for {
				st := c14Stats(srv)
				last := 0
				if len(st) > 0 {
					last = st[len(st)-1]
				}
				if last == len(open) {
					return true
				}
				if time.Now().After(deadline) {
					// once more, much later: a leak is permanent, a delay is not
					time.Sleep(10 * time.Second)
					st = c14Stats(srv)
					if len(st) > 0 && st[len(st)-1] == len(open) || len(st) == 0 && len(open) == 0 {
						return true
					}
					fail("reported-count-differs-from-open-connections", map[string]interface{}{"reported": last})
					return false
				}
				time.Sleep(20 * time.Millisecond)
			}
		}
		check := func() bool {
			if !quiesce() {
				return false
			}
			for _, v := range c14Stats(srv) {
				if v < 0 || v > max {
					fail("reported-count-out-of-range", map[string]interface{}{"value": v})
					return false
				}
			}
			ok, pc := d.connect("nochannel")
			want := len(open) < max
			trace = append(trace, fmt.Sprintf("probe(open=%d)=>%v", len(open), ok))
			if pc != nil {
				pc.close(false)
			}
			if ok != want {
				what := "connection-refused-although-slots-free"
				if ok {
					what = "connection-served-beyond-max"
				}
				fail(what, map[string]interface{}{"probe_accepted": ok, "want": want})
				return false
			}
			r.Count("quiescent_checks", 1)
			return quiesce()
		}
		kinds := []string{"nochannel", "shell1", "chan3", "shell3", "health", "badchannel"}
		steps := 6 + hrng.Intn(10)
		good := true
		for s := 0; s < steps && good; s++ {
			switch op := hrng.Intn(10); {
			case op < 4: // connect
				k := kinds[hrng.Intn(len(kinds))]
				ok, c := d.connect(k)
				want := len(open) < max
				trace = append(trace, fmt.Sprintf("connect(%s)=>%v", k, ok))
				r.SetAdd("op", "connect-"+k)
				if ok != want {
					what := "connection-refused-although-slots-free"
					if ok {
						what = "connection-served-beyond-max"
					}
					fail(what, map[string]interface{}{"kind": k, "accepted": ok, "want": want})
					good = false
				}
				if c != nil {
					open = append(open, c)
				}
			case op < 7: // close one
				if len(open) > 0 {
					i := hrng.Intn(len(open))
					abrupt := hrng.Intn(2) == 0
					trace = append(trace, fmt.Sprintf("close(%s,abrupt=%v)", open[i].kind, abrupt))
					r.SetAdd("op", fmt.Sprintf("close-abrupt=%v", abrupt))
					open[i].close(abrupt)
					open = append(open[:i], open[i+1:]...)
					good = check()
				}
			case op == 7: // noise
				n := d.noise(hrng, wrongKey)
				trace = append(trace, n)
				r.SetAdd("op", n)
				if hrng.Intn(2) == 0 {
					good = check()
				}
			case op == 8: // unknown request type: the server closes the connection itself
				if len(open) < max {
					ok, c := d.connect("nochannel")
					trace = append(trace, fmt.Sprintf("connect(badrequest)=>%v", ok))
					r.SetAdd("op", "badrequest")
					if ok {
						if s, err := c.client.NewSession(); err == nil {
							switch variant := hrng.Intn(3); variant {
							case 0:
								s.SendRequest("exec", true, ssh.Marshal(struct{ C string }{"id"}))
							default:
								// a shell, then more requests than the SSH library queues
								// per channel (16): paced, or as one burst
								r.SetAdd("op", fmt.Sprintf("badrequest-x40-burst=%v", variant == 2))
								trace = append(trace, fmt.Sprintf("40 requests after shell, burst=%v", variant == 2))
								s.StdinPipe()
								s.StdoutPipe()
								if c14Request(s, "shell", true) {
									for q := 0; q < 40; q++ {
										s.SendRequest([]string{"window-change", "env", "verif-unknown@example"}[q%3], false, make([]byte, 16))
										if variant == 1 {
											time.Sleep(3 * time.Millisecond)
										}
									}
								}
							}
						}
						time.Sleep(50 * time.Millisecond)
						c.close(false)
						good = check()
					} else {
						fail("connection-refused-although-slots-free", map[string]interface{}{"kind": "badrequest"})
						good = false
					}
				}
			default: // burst
				k := 1 + hrng.Intn(4*max)
				var wg sync.WaitGroup
				res := make([]*c14Conn, k)
				for i := 0; i < k; i++ {
					wg.Add(1)
					kind := kinds[hrng.Intn(len(kinds))]
					go func(i int, kind string) {
						defer wg.Done()
						if ok, c := d.connect(kind); ok {
							res[i] = c
						}
					}(i, kind)
				}
				wg.Wait()
				served := 0
				for _, c := range res {
					if c != nil {
						served++
						open = append(open, c)
					}
				}
				want := max - (len(open) - served)
				if k < want {
					want = k
				}
				trace = append(trace, fmt.Sprintf("burst(%d)=>served %d", k, served))
				r.SetAdd("op", "burst")
				r.Max("max_burst_size", k)
				if served != want {
					fail("burst-served-count", map[string]interface{}{"burst": k, "served": served, "want": want})
					good = false
				} else {
					good = check()
				}
			}
		}
		if good {
			// close everything: all slots must come back
			for _, c := range open {
				c.close(hrng.Intn(2) == 0)
			}
			open = nil
			trace = append(trace, "close-all")
			good = check()
		}
		key := ""
		if len(trace) >= 3 {
			key = fmt.Sprintf("%d|%v", max, trace)
		}
		r.Eval(key)
		r.Count("operations", len(trace))
		if hi < 2 {
			r.Sample(map[string]interface{}{"max_connections": max, "history": trace, "stats_logged": c14Stats(srv)})
		}
		// synchronised bursts at open == 0: exactly Max must be served, every time
		for b := 0; good && b < 8; b++ {
			k := max + 1 + hrng.Intn(2*max+2)
			conns := d.syncBurst(k)
			trace = append(trace, fmt.Sprintf("syncburst(%d)=>served %d", k, len(conns)))
			r.Count("synchronised_bursts", 1)
			if len(conns) != max {
				fail("burst-served-count", map[string]interface{}{"synchronised_burst": k, "served": len(conns), "want": max})
				good = false
			}
			open = conns
			if good {
				good = quiesce()
				for _, v := range c14Stats(srv) {
					if v < 0 || v > max {
						fail("reported-count-out-of-range", map[string]interface{}{"value": v})
						good = false
						break
					}
				}
			}
			for _, c := range open {
				c.close(false)
			}
			open = nil
			if good {
				good = quiesce()
			}
		}
		if good {
			c14Linearizability(r, srv, d, max, hrng)
		}
		if !srv.D.Alive() {
			r.Violation("server-died", map[string]interface{}{"history": trace, "log": vlib.Trunc(string(srv.D.Log()), 3000)})
		}
		for _, c := range open {
			c.close(false)
		}
	})
	return nHist / 2
}

// c14Linearizability: several clients connect/hold/close concurrently; the
// recorded history must be linearizable w.r.t. a sequential counter: connect
// is served iff open < Max (then open++), close does open--. A close returns
// on the client long before the server notices the disconnect, so its return
// time is the end of the history (it may take effect anywhere after its call).
func c14Linearizability(r *vlib.Run, srv *vlib.Server, d *c14Driver, max int, rng *rand.Rand) {
	clients := 2 + rng.Intn(3)
	opsPer := 4 + rng.Intn(5)
	t0 := time.Now()
	now := func() int64 { return int64(time.Since(t0)) }
	var mu sync.Mutex
	var ops []porcupine.Operation
	var wg sync.WaitGroup
	seeds := make([]int64, clients)
	for i := range seeds {
		seeds[i] = rng.Int63()
	}
	type closeRec struct{ idx int }
	var closes []int
	for ci := 0; ci < clients; ci++ {
		wg.Add(1)
		go func(ci int) {
			defer wg.Done()
			crng := rand.New(rand.NewSource(seeds[ci]))
			var mine []*c14Conn
			for k := 0; k < opsPer; k++ {
				if len(mine) > 0 && crng.Intn(2) == 0 {
					c := mine[0]
					mine = mine[1:]
					call := now()
					c.close(crng.Intn(2) == 0)
					mu.Lock()
					ops = append(ops, porcupine.Operation{ClientId: ci, Input: c14In{"close"}, Call: call, Output: true, Return: -1})
					closes = append(closes, len(ops)-1)
					mu.Unlock()
				} else {
					call := now()
					ok, c := d.connect([]string{"nochannel", "shell1"}[crng.Intn(2)])
					ret := now()
					if c != nil {
						mine = append(mine, c)
					}
					mu.Lock()
					ops = append(ops, porcupine.Operation{ClientId: ci, Input: c14In{"connect"}, Call: call, Output: ok, Return: ret})
					mu.Unlock()
				}
				time.Sleep(time.Duration(crng.Intn(4)) * time.Millisecond)
			}
			for _, c := range mine {
				call := now()
				c.close(false)
				mu.Lock()
				ops = append(ops, porcupine.Operation{ClientId: ci, Input: c14In{"close"}, Call: call, Output: true, Return: -1})
				closes = append(closes, len(ops)-1)
				mu.Unlock()
			}
		}(ci)
	}
	wg.Wait()
	end := now() + 1
	for _, i := range closes {
		ops[i].Return = end
	}
	model := porcupine.Model{
		Init: func() interface{} { return 0 },
		Step: func(state, input, output interface{}) (bool, interface{}) {
			n := state.(int)
			in := input.(c14In)
			if in.Op == "close" {
				return true, n - 1
			}
			ok := output.(bool)
			if ok {
				return n < max, n + 1
			}
			return n >= max, n
		},
		DescribeOperation: func(input, output interface{}) string {
			return fmt.Sprintf("%s=>%v", input.(c14In).Op, output)
		},
	}
	res := porcupine.CheckOperationsTimeout(model, ops, 60*time.Second)
	r.Count("porcupine_histories", 1)
	r.Count("porcupine_operations", len(ops))
	switch res {
	case porcupine.Ok:
	case porcupine.Unknown:
		r.Inconclusive("porcupine-timeout")
	case porcupine.Illegal:
		var hist []string
		for _, o := range ops {
			hist = append(hist, fmt.Sprintf("c%d %s=>%v [%d,%d]", o.ClientId, o.Input.(c14In).Op, o.Output, o.Call/1000, o.Return/1000))
		}
		r.Violation("history-not-linearizable", map[string]interface{}{"max_connections": max, "operations_us": hist})
	}
	// all closed: the count must return to 0
	deadline := time.Now().Add(25 * time.Second)
	for {
		st := c14Stats(srv)
		if len(st) == 0 || st[len(st)-1] == 0 {
			break
		}
		if time.Now().After(deadline) {
			r.Violation("slots-not-returned-after-concurrent-phase", map[string]interface{}{"max_connections": max, "stats_values_logged": st})
			break
		}
		time.Sleep(50 * time.Millisecond)
	}
}
