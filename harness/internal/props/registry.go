// Package props holds one driver per property.
package props

import "github.com/mimecast/dtail/verifharness/internal/vlib"

// Driver runs the check of a property and returns the minimum number of
// conclusive cases below which the run is inconclusive.
type Driver func(r *vlib.Run) int

// Drivers by property id.
var Drivers = map[string]Driver{}

// Children are the in-process worker modes (`vcheck child <mode> ...`).
var Children = map[string]func(args []string) int{}
