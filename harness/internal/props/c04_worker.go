//go:build w_c04

package props

import (
	"context"
	"encoding/json"
	"fmt"
	"github.com/mimecast/dtail/internal/io/fs"
	"github.com/mimecast/dtail/internal/io/line"
	"github.com/mimecast/dtail/internal/lcontext"
	dregex "github.com/mimecast/dtail/internal/regex"
	"github.com/mimecast/dtail/internal/source"
	"github.com/mimecast/dtail/verifharness/internal/dt"
	"github.com/mimecast/dtail/verifharness/internal/vlib"
	"os"
	"path/filepath"
	"sync"
	"sync/atomic"
	"time"
)

func init() {
	Children["c04api"] = c04Child
}

func c04Child(args []string) int {
	dir := args[0]
	dt.Init(source.Server, "none", "none", "error", true)
	rdir, _ := filepath.EvalSymlinks(dir)
	return vlib.BatchMainPar(dir, 16, func(i int, raw json.RawMessage) interface{} {
		var c c04Case
		json.Unmarshal(raw, &c)
		var res c04Result
		path := filepath.Join(rdir, fmt.Sprintf("follow-%d.log", i))
		os.WriteFile(path, []byte(c.Old), 0644)
		defer os.Remove(path)
		re, err := dregex.New(c.Pattern, dregex.Default)
		if err != nil {
			res.Err = err.Error()
			return res
		}
		serverMessages := make(chan string, 16)
		lines := make(chan *line.Line, c.Cap)
		ctx, cancel := context.WithCancel(context.Background())
		go func() {
			for {
				select {
				case <-serverMessages:
				case <-ctx.Done():
					return
				}
			}
		}()
		var mu sync.Mutex
		lastDelivery := time.Now()
		consDone := make(chan struct{})
		var stallUntil int64 // unix nanoseconds; the consumer takes nothing before
		go func() {
			defer close(consDone)
			for {
				if d := atomic.LoadInt64(&stallUntil) - time.Now().UnixNano(); d > 0 {
					time.Sleep(time.Duration(d))
				}
				select {
				case l := <-lines:
					mu.Lock()
					res.Delivered = append(res.Delivered, c04Delivered{l.Content.String(), l.Count, l.TransmittedPerc})
					lastDelivery = time.Now()
					mu.Unlock()
					if c.ConsumeMs > 0 {
						time.Sleep(time.Duration(c.ConsumeMs * float64(time.Millisecond)))
					}
				case <-ctx.Done():
					return
				}
			}
		}()
		readerDone := make(chan struct{})
		go func() {
			defer close(readerDone)
			reader := fs.NewTailFile(path, "id", serverMessages)
			reader.Start(ctx, lcontext.LContext{}, lines, re)
		}()
		// wait until the reader has opened the file and sits at its end
		size := int64(len(c.Old))
		deadline := time.Now().Add(10 * time.Second)
		for time.Now().Before(deadline) {
			if fdPos(os.Getpid(), path) == size {
				res.Positioned = true
				break
			}
			time.Sleep(2 * time.Millisecond)
		}
		if !res.Positioned {
			cancel()
			<-readerDone
			return res
		}
		fd, _ := os.OpenFile(path, os.O_APPEND|os.O_WRONLY, 0644)
		for _, w := range c.Writes {
			if w.StallMs > 0 {
				atomic.StoreInt64(&stallUntil, time.Now().Add(time.Duration(w.StallMs)*time.Millisecond).UnixNano())
			}
			fd.Write(w.Data)
			if w.PauseMs > 0 {
				time.Sleep(time.Duration(w.PauseMs) * time.Millisecond)
			}
		}
		fd.Close()
		mu.Lock()
		lastDelivery = time.Now()
		mu.Unlock()
		// let the follower drain: finished when nothing was delivered for 700 ms
		// (7 polls of the reader) - bounded by 30 s.
		end := time.Now().Add(30 * time.Second)
		for time.Now().Before(end) {
			mu.Lock()
			idle := time.Since(lastDelivery)
			mu.Unlock()
			if idle > 700*time.Millisecond && len(lines) == 0 {
				break
			}
			time.Sleep(20 * time.Millisecond)
		}
		cancel()
		<-readerDone
		<-consDone
		return res
	})
}
