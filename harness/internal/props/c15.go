package props

import (
	"bytes"
	"encoding/json"
	"fmt"
	"io"
	"os"
	"os/exec"
	"path/filepath"
	"sort"
	"strings"
	"sync"
	"sync/atomic"
	"syscall"
	"time"

	"github.com/mimecast/dtail/verifharness/internal/vlib"
)

// C15 — a mapreduce outfile is never observable half-written.
// Level: fault enumeration over kill points.

func init() {
	Drivers["C15"] = c15
}

type c15Scenario struct {
	Name         string
	Rows         int  // number of result rows (groups)
	Append       bool // outfile append
	Interim      bool // paced stdin, interval 1 => several interim writes before the final one
	Existing     int  // number of earlier complete results already at the outfile path (non-append: 0/1; append: runs before)
	FinalDelayMs int  // extra delay before the input ends (moves the final write relative to the interim ticks)
	StaleTmp     bool // a longer <outfile>.tmp (and .query.tmp) is left over from an earlier, killed run
	OtherFS      bool // the outfile lives on another filesystem (/dev/shm) than the process's temporary directory and cwd
	AltQuery     bool // the same query spelled with upper-case keywords: another text of the same length with the same result
}

// c15Base returns the directory of a scenario's outfile. OtherFS scenarios get one on /dev/shm (a tmpfs, another
// device than the scratch directory under /tmp, which stays the client's TMPDIR and HOME): anything that stages the
// result elsewhere than beside the outfile cannot publish it with a rename there. ok=false: no such filesystem here.
func c15Base(r *vlib.Run, sc c15Scenario) (dir string, cleanup func(), ok bool) {
	if !sc.OtherFS {
		return r.Dir("c15-" + sc.Name), func() {}, true
	}
	var a, b syscall.Stat_t
	if syscall.Stat("/dev/shm", &a) != nil || syscall.Stat(r.Scratch, &b) != nil || a.Dev == b.Dev {
		return "", func() {}, false
	}
	d, err := os.MkdirTemp("/dev/shm", "verif-c15-")
	if err != nil {
		return "", func() {}, false
	}
	return d, func() { os.RemoveAll(d) }, true
}

func c15Line(g int, v int) string {
	return fmt.Sprintf("INFO|1002-071209|1|m.go:1|8|14|7|0.21|471h|MAPREDUCE:OUT|g=grp%04d|v=%d", g, v)
}

// c15Input: lines such that the final result has `rows` groups; deterministic.
func c15Input(rows int, gen int) []string {
	var ls []string
	for rep := 0; rep < 3; rep++ {
		for g := 0; g < rows; g++ {
			ls = append(ls, c15Line(g, g+rep+gen))
		}
	}
	return ls
}

// c15Expected: the complete result as a set of row strings (order varies).
func c15Expected(rows int, gen int) (string, map[string]int) {
	header := "g,count($line),sum(v)"
	set := map[string]int{}
	for g := 0; g < rows; g++ {
		sum := 0
		for rep := 0; rep < 3; rep++ {
			sum += g + rep + gen
		}
		set[fmt.Sprintf("grp%04d,3,%d.000000", g, sum)]++
	}
	return header, set
}

func c15Query(out string, appendMode, interim bool) string {
	q := "from OUT select g,count($line),sum(v) group by g limit 100000 outfile "
	if appendMode {
		q += "append "
	}
	q += out
	if interim {
		q += " interval 1"
	}
	return q
}

// c15AltQuery: the earlier runs against an outfile use this spelling, so that the query file they leave behind holds
// a different text of exactly the same length as the judged run's.
func c15AltQuery(q string) string {
	for _, kw := range []string{"from ", "select ", "group by ", "limit ", "outfile ", "interval "} { // (not "append": only clause keywords are case-insensitive)
		q = strings.Replace(q, kw, strings.ToUpper(kw), 1)
	}
	return q
}

// c15Run runs dmap serverless with the input on stdin (paced if interim) and
// the given VERIF_POINTS; returns the result and the hook trace.
func c15Run(r *vlib.Run, dir string, sc c15Scenario, gen int, points string, watch func(), strace []string) (*vlib.Result, []hookEvent) {
	out := filepath.Join(dir, "result.csv")
	trace := filepath.Join(dir, "trace.jsonl")
	os.Remove(trace)
	query := c15Query(out, sc.Append, sc.Interim)
	if sc.AltQuery {
		query = c15AltQuery(query)
	}
	args := []string{"--cfg", "none", "--logger", "stdout", "--logLevel", "error", "--noColor", "--files", "-", "--query", query}
	bin := r.Bin("dmap")
	argv := append([]string{bin}, args...)
	if len(strace) > 0 {
		argv = append(append([]string{}, strace...), argv...)
	}
	cmd := exec.Command(argv[0], argv[1:]...)
	cmd.Dir = dir
	cmd.Env = append(vlib.BaseEnv(dir), "VERIF_TRACE="+trace, "TMPDIR="+r.Scratch)
	if points != "" {
		cmd.Env = append(cmd.Env, "VERIF_POINTS="+points)
	}
	stdin, _ := cmd.StdinPipe()
	var so, se bytes.Buffer
	cmd.Stdout, cmd.Stderr = &so, &se
	cmd.SysProcAttr = &syscall.SysProcAttr{Setpgid: true}
	res := &vlib.Result{Exit: -1}
	start := time.Now()
	if err := cmd.Start(); err != nil {
		res.TimedOut = true
		return res, nil
	}
	stopWatch := make(chan struct{})
	var wg sync.WaitGroup
	if watch != nil {
		wg.Add(1)
		go func() {
			defer wg.Done()
			for {
				select {
				case <-stopWatch:
					return
				default:
					watch()
				}
			}
		}()
	}
	go func() {
		lines := c15Input(sc.Rows, gen)
		if sc.Interim {
			// feed in 4 slices over ~3.6 s so that interim results are written
			n := len(lines)
			for k := 0; k < 4; k++ {
				for _, l := range lines[k*n/4 : (k+1)*n/4] {
					if _, err := io.WriteString(stdin, l+"\n"); err != nil {
						return
					}
				}
				time.Sleep(900 * time.Millisecond)
			}
			time.Sleep(time.Duration(sc.FinalDelayMs) * time.Millisecond)
		} else {
			for _, l := range lines {
				if _, err := io.WriteString(stdin, l+"\n"); err != nil {
					return
				}
			}
		}
		stdin.Close()
	}()
	done := make(chan error, 1)
	go func() { done <- cmd.Wait() }()
	var err error
	select {
	case err = <-done:
	case <-time.After(90 * time.Second):
		syscall.Kill(-cmd.Process.Pid, syscall.SIGKILL)
		err = <-done
		res.TimedOut = true
	}
	close(stopWatch)
	wg.Wait()
	res.Wall = time.Since(start)
	res.Stdout, res.Stderr = so.Bytes(), se.Bytes()
	if err == nil {
		res.Exit = 0
	} else if ee, ok := err.(*exec.ExitError); ok {
		if ws, ok := ee.Sys().(syscall.WaitStatus); ok {
			if ws.Signaled() {
				res.Signal = int(ws.Signal())
			} else {
				res.Exit = ws.ExitStatus()
			}
		}
	}
	return res, readTrace(trace)
}

// c15State classifies the content of the outfile path.
// non-append: absent | old | new | BAD(reason)
func c15Classify(content []byte, exists bool, header string, oldSet, newSet map[string]int) (string, string) {
	if !exists {
		return "absent", ""
	}
	text := string(content)
	if !strings.HasSuffix(text, "\n") {
		return "bad", "file does not end with a complete line"
	}
	lines := strings.Split(strings.TrimSuffix(text, "\n"), "\n")
	if len(lines) == 0 || lines[0] != header {
		return "bad", fmt.Sprintf("first line is %q, not the header", vlib.Trunc(lines[0], 80))
	}
	got := map[string]int{}
	for _, l := range lines[1:] {
		got[l]++
	}
	eq := func(a, b map[string]int) bool {
		if len(a) != len(b) {
			return false
		}
		for k, v := range a {
			if b[k] != v {
				return false
			}
		}
		return true
	}
	if newSet != nil && eq(got, newSet) {
		return "new", ""
	}
	if oldSet != nil && eq(got, oldSet) {
		return "old", ""
	}
	return "bad", fmt.Sprintf("%d rows: neither the complete earlier result (%d rows) nor the complete final result (%d rows)", len(lines)-1, len(oldSet), len(newSet))
}

// c15CheckAppend: earlier content must be a byte prefix; header exactly once, first line.
func c15CheckAppend(before, after []byte, header string) string {
	if !bytes.HasPrefix(after, before) {
		return "earlier rows were altered (previous content is not a prefix of the file)"
	}
	lines := strings.Split(string(after), "\n")
	if len(after) > 0 && lines[0] != header && !strings.HasPrefix(header, lines[0]) {
		return fmt.Sprintf("first line is %q, not the header", vlib.Trunc(lines[0], 80))
	}
	n := 0
	for _, l := range lines {
		if l == header {
			n++
		}
	}
	if n > 1 {
		return fmt.Sprintf("header occurs %d times", n)
	}
	return ""
}

func c15(r *vlib.Run) int {
	r.Level = "fault_enumeration"
	r.Rule("kill points: for each scenario a reference run lists the out.* hook events (query file written, outfile opened, header, every row, " +
		"before/after rename) in order; the real dmap is then re-run once per event with SIGKILL delivered to itself exactly at that " +
		"event, and (thorough) under strace with SIGKILL injected at the N-th syscall touching the four paths. Scenarios: final-only / " +
		"several interim writes (input paced on stdin, interval 1) x over nothing / over an earlier complete result x append first/" +
		"second/third run x result sizes 1, 3, 200 rows. After each kill: without append the outfile is absent, byte-for-byte the " +
		"earlier complete result, or the complete final result (rows as a multiset) and then the .query file holds the query text; with " +
		"append the earlier content is a prefix and the header occurs once. A watcher re-reads the outfile continuously during un-killed " +
		"runs. distinct = distinct (scenario, kill point); non-trivial = kill point at or after the first write to the outfile.")
	r.Assume("a kill inside a single write(2) of a few bytes is not separately reachable; in append mode a torn last record is not judged")
	scs := []c15Scenario{
		{Name: "final-only-3", Rows: 3},
		{Name: "final-only-1-over-existing", Rows: 1, Existing: 1},
		{Name: "final-only-200", Rows: 200},
		{Name: "interim-3-over-existing", Rows: 3, Interim: true, Existing: 1},
		{Name: "interim-200", Rows: 200, Interim: true},
		{Name: "append-first-3", Rows: 3, Append: true},
		{Name: "append-second-3", Rows: 3, Append: true, Existing: 1},
		{Name: "append-third-interim-3", Rows: 3, Append: true, Interim: true, Existing: 2},
	}
	scs = append(scs, c15Scenario{Name: "final-only-3-other-filesystem", Rows: 3, OtherFS: true},
		c15Scenario{Name: "interim-3-over-existing-other-filesystem", Rows: 3, Interim: true, Existing: 1, OtherFS: true})
	scs = append(scs, c15Scenario{Name: "final-only-3-stale-tmp", Rows: 3, StaleTmp: true},
		c15Scenario{Name: "interim-3-over-existing-stale-tmp", Rows: 3, Interim: true, Existing: 1, StaleTmp: true})
	if r.Thorough() {
		scs = append(scs, c15Scenario{Name: "interim-200-over-existing", Rows: 200, Interim: true, Existing: 1}, c15Scenario{Name: "append-second-200", Rows: 200, Append: true, Existing: 1},
			c15Scenario{Name: "final-only-3-over-existing", Rows: 3, Existing: 1}, c15Scenario{Name: "append-first-interim-1", Rows: 1, Append: true, Interim: true})
	}
	maxPoints := r.N(40, 100000)
	vlib.Parallel(len(scs), 8, func(si int) {
		c15Scenario1(r, scs[si], maxPoints)
	})
	var sched sync.WaitGroup
	sched.Add(1)
	go func() { defer sched.Done(); c15Scheduled(r) }()
	c15Overlap(r)
	c15NonCumulative(r)
	c15AppendComplete(r)
	sched.Wait()
	return 10
}

// c15Scheduled: the outfile of a scheduled job of the server (the scheduler treats the existence of the outfile as
// "job done", so a torn file would be permanent). The job is made to last longer than the scheduler's period of one
// minute (its first read is held for 70 s at the hook point fs.positioned, result rows are written 20 ms apart), and
// a watcher re-reads the outfile all the time: absent or complete, whatever the scheduler does meanwhile.
func c15Scheduled(r *vlib.Run) {
	rows := 150
	name := "c15sched"
	srvDir := r.Dir("srv-" + name)
	data := filepath.Join(srvDir, "job.log")
	os.WriteFile(data, []byte(strings.Join(c15Input(rows, 0), "\n")+"\n"), 0644)
	out := filepath.Join(srvDir, "job-result.csv")
	header, newSet := c15Expected(rows, 0)
	spec := &vlib.ServerSpec{Name: name, Dir: srvDir, LogLevel: "error",
		Env: []string{"VERIF_POINTS=fs.positioned=sleep(70000)@1;out.row=sleep(20)"},
		Server: map[string]interface{}{"MaxConnections": 20, "MaxConcurrentCats": 4,
			"Schedule": []interface{}{map[string]interface{}{"Name": "long-job", "Enable": true, "AllowFrom": []string{"localhost", "127.0.0.1"}, "TimeRange": []int{0, 24},
				"Files": data, "Query": "from OUT select g,count($line),sum(v) group by g limit 100000 interval 1", "Outfile": out}}}}
	srv, err := r.StartServer(spec)
	if err != nil {
		r.Inconclusive("server-start")
		return
	}
	defer srv.Stop()
	samples, bad, seen := 0, 0, map[string]bool{}
	var first string
	deadline := time.Now().Add(100 * time.Second)
	complete := time.Time{}
	for time.Now().Before(deadline) && srv.D.Alive() {
		content, err := os.ReadFile(out)
		st, why := c15Classify(content, err == nil, header, nil, newSet)
		samples++
		seen[st] = true
		if st == "bad" {
			bad++
			if first == "" {
				first = fmt.Sprintf("%s (%d bytes, %d NUL bytes)", why, len(content), bytes.Count(content, []byte{0}))
			}
		}
		if st == "new" && complete.IsZero() {
			complete = time.Now()
		}
		if !complete.IsZero() && time.Since(complete) > 12*time.Second {
			break
		}
		time.Sleep(2 * time.Millisecond)
	}
	r.Eval("scheduled-job-longer-than-the-scheduler-period")
	r.Count("scheduled_job_outfile_samples", samples)
	for st := range seen {
		r.SetAdd("states_observed", "scheduled/"+st)
	}
	switch {
	case !srv.D.Alive():
		r.Violation("server-died", map[string]interface{}{"scenario": "scheduled job", "log": vlib.Trunc(string(srv.D.Log()), 2000)})
	case bad > 0:
		r.Violation("watcher-saw-half-written-outfile", map[string]interface{}{"scenario": "scheduled job of the server lasting longer than the scheduler's period (70 s hold at fs.positioned)",
			"samples": samples, "bad_samples": bad, "first": first})
	case !seen["new"]:
		r.Inconclusive("scheduled-job-did-not-finish")
	}
}

// c15AppendComplete: un-killed append runs, judged completely: onto no file,
// onto an existing but empty file, onto one and two earlier results. The file
// must be: the header once, in the first line, then the rows of every run in
// the order of the runs (each run's rows as a multiset).
func c15AppendComplete(r *vlib.Run) {
	type ac struct {
		name     string
		existing int
		empty    bool
		rows     int
	}
	cases := []ac{{"append-onto-nothing", 0, false, 3}, {"append-onto-an-empty-file", 0, true, 3}, {"append-onto-an-empty-file-200", 0, true, 200},
		{"append-onto-one-result", 1, false, 3}, {"append-onto-two-results", 2, false, 40}}
	vlib.Parallel(len(cases), 3, func(i int) {
		c := cases[i]
		dir := r.Dir("c15-" + c.name)
		defer os.RemoveAll(dir)
		sc := c15Scenario{Name: c.name, Rows: c.rows, Append: true, Existing: c.existing}
		c15Prepare(r, dir, sc)
		out := filepath.Join(dir, "result.csv")
		if c.empty {
			os.WriteFile(out, nil, 0644)
		}
		res, _ := c15Run(r, dir, sc, 0, "", nil, nil)
		r.Eval("append-complete|" + c.name)
		r.Count("append_runs_judged_completely", 1)
		if res.TimedOut || res.Exit != 0 {
			r.Violation("reference-run-failed", map[string]interface{}{"scenario": c.name, "exit": res.Exit, "stderr": vlib.Trunc(string(res.Stderr), 1200)})
			return
		}
		content, _ := os.ReadFile(out)
		lines := strings.Split(strings.TrimSuffix(string(content), "\n"), "\n")
		header, _ := c15Expected(c.rows, 0)
		why := ""
		switch {
		case len(content) == 0 || !strings.HasSuffix(string(content), "\n"):
			why = "outfile empty or not ending with a complete line"
		case lines[0] != header:
			why = fmt.Sprintf("first line is %q, not the header", vlib.Trunc(lines[0], 80))
		case len(lines)-1 != (c.existing+1)*c.rows:
			why = fmt.Sprintf("%d rows, want %d (%d runs of %d rows)", len(lines)-1, (c.existing+1)*c.rows, c.existing+1, c.rows)
		}
		if why == "" {
			for k, l := range lines[1:] {
				if l == header {
					why = fmt.Sprintf("header repeated in line %d", k+2)
					break
				}
			}
		}
		if why == "" {
			// the last run's rows
			_, want := c15Expected(c.rows, 0)
			got := map[string]int{}
			for _, l := range lines[len(lines)-c.rows:] {
				got[l]++
			}
			for row, n := range want {
				if got[row] != n {
					why = fmt.Sprintf("row %q of the appended result occurs %d times, want %d", row, got[row], n)
					break
				}
			}
		}
		if why != "" {
			r.Violation("append-outfile-damaged", map[string]interface{}{"scenario": c.name, "why": why, "outfile": vlib.Trunc(string(content), 1200)})
		}
	})
}

type c15NonCumCase struct {
	Groups int `json:"groups"`
	RunMs  int `json:"run_ms"`
}

type c15NonCumResult struct {
	Err       string `json:"err,omitempty"`
	Status    int    `json:"status"`
	Samples   int    `json:"samples"`
	Bad       int    `json:"bad"`
	Why       string `json:"why,omitempty"`
	Bytes     int    `json:"bytes,omitempty"`
	FinalRows int    `json:"final_rows"`
	TmpLeft   bool   `json:"tmp_left,omitempty"`
}

// c15NonCumulative: the outfile of a continuous job (the server runs the
// mapreduce client in non-cumulative mode: every interval's result replaces the
// outfile). In worker processes the client follows a growing file with tens of
// thousands of groups, is cancelled at various points relative to its report
// interval (as on a day change, the process lives on) and a watcher re-reads
// the outfile every 2 ms: it must always be a complete result.
func c15NonCumulative(r *vlib.Run) {
	n := r.N(6, 40)
	var cases []interface{}
	for i := 0; i < n; i++ {
		cases = append(cases, c15NonCumCase{Groups: 30000 + 5000*(i%3), RunMs: 3600 + 170*i})
	}
	// a delay at 4 % of the rows written stretches every write of the outfile to
	// a few hundred ms, so that the end of the job falls into a write (or a write
	// into the end of the job) in most runs
	results, crashes := r.RunBatchesOpts("c15noncum", cases, vlib.BatchOpts{Size: 1, Workers: 6,
		Env: []string{"VERIF_POINTS=out.row=sleep(1)~0.04", fmt.Sprintf("VERIF_POINTS_SEED=%d", r.Seed)}})
	for _, cr := range crashes {
		r.Violation("continuous-job-client-crashed", map[string]interface{}{"stderr": vlib.Trunc(string(cr.Result.Stderr), 2500), "exit": cr.Result.Exit})
	}
	for i, raw := range results {
		if raw == nil {
			continue
		}
		var res c15NonCumResult
		json.Unmarshal(raw, &res)
		r.Eval(fmt.Sprintf("noncum|%d", i))
		r.Count("continuous_job_runs", 1)
		r.Count("continuous_job_watcher_samples", res.Samples)
		r.Max("continuous_job_rows_left_behind_max", res.FinalRows)
		if res.Err != "" {
			r.Violation("continuous-job-did-not-run", map[string]interface{}{"error": res.Err, "case": cases[i]})
			continue
		}
		if res.Bad > 0 {
			r.Violation("continuous-job-outfile-half-written", map[string]interface{}{"why": res.Why, "bytes": res.Bytes, "bad_samples": res.Bad,
				"samples": res.Samples, "case": cases[i]})
		}
	}
}

// c15Overlap: a large result whose final write takes long enough to coincide
// with a periodic interim report (interval 1). No kill: the outfile observed by
// the watcher during the run and the outfile left behind must be complete.
func c15Overlap(r *vlib.Run) {
	rows := r.N(40000, 90000) // below the query's "limit 100000"
	delays := []int{0, 250, 500, 750}
	if r.Thorough() {
		delays = []int{0, 100, 200, 300, 400, 500, 600, 700, 800, 900}
	}
	header, newSet := c15Expected(rows, 0)
	vlib.Parallel(len(delays)+1, 5, func(i int) {
		var sc c15Scenario
		if i == len(delays) {
			sc = c15Scenario{Name: "overlap-other-filesystem", Rows: rows, Interim: true, FinalDelayMs: 300, OtherFS: true}
		} else {
			sc = c15Scenario{Name: fmt.Sprintf("overlap-%d", delays[i]), Rows: rows, Interim: true, FinalDelayMs: delays[i]}
		}
		dir, cleanup, ok := c15Base(r, sc)
		if !ok {
			r.Count("scenarios_skipped_no_other_filesystem", 1)
			return
		}
		defer cleanup()
		defer os.RemoveAll(dir)
		out := filepath.Join(dir, "result.csv")
		var bad int64
		var once sync.Once
		watch := func() {
			content, err := os.ReadFile(out)
			if err != nil {
				time.Sleep(time.Millisecond)
				return
			}
			if st, why := c15Classify(content, true, header, nil, newSet); st == "bad" {
				atomic.AddInt64(&bad, 1)
				once.Do(func() {
					r.Violation("watcher-saw-half-written-outfile", map[string]interface{}{"scenario": sc.Name, "why": why, "bytes": len(content)})
				})
			}
			time.Sleep(2 * time.Millisecond)
		}
		res, evs := c15Run(r, dir, sc, 0, "", watch, nil)
		r.Eval("overlap|" + sc.Name)
		r.Count("overlap_runs", 1)
		interims := 0
		for _, e := range evs {
			if e.Name == "out.opened" {
				interims++
			}
		}
		r.Max("overlap_max_outfile_writes_in_one_run", interims)
		if res.TimedOut || res.Exit != 0 {
			content, err := os.ReadFile(out)
			if st, why := c15Classify(content, err == nil, header, nil, newSet); st == "bad" {
				r.Violation("outfile-half-written", map[string]interface{}{"scenario": sc.Name, "kill_point": "none (the run failed by itself)", "why": why, "bytes": len(content)})
			}
			r.Inconclusive("reference-run-failed:" + sc.Name)
			fmt.Printf("NOTE property=C15 scenario=%s run failed (exit %d): %s\n", sc.Name, res.Exit, vlib.Trunc(string(res.Stderr), 300))
			return
		}
		content, err := os.ReadFile(out)
		if st, why := c15Classify(content, err == nil, header, nil, newSet); st != "new" {
			r.Violation("final-result-incomplete", map[string]interface{}{"scenario": sc.Name, "state": st, "why": why, "bytes": len(content),
				"nul_bytes": bytes.Count(content, []byte{0})})
		}
	})
}

func c15Prepare(r *vlib.Run, dir string, sc c15Scenario) []byte {
	// earlier complete results are produced by the real client itself
	os.RemoveAll(dir)
	os.MkdirAll(dir, 0755)
	for e := 0; e < sc.Existing; e++ {
		pre := c15Scenario{Rows: sc.Rows, Append: sc.Append, AltQuery: true}
		c15Run(r, dir, pre, 100+e, "", nil, nil)
	}
	if sc.StaleTmp {
		var sb strings.Builder
		sb.WriteString("g,count($line),sum(v)\n")
		for k := 0; k < 700; k++ {
			fmt.Fprintf(&sb, "stale%04d,9,99.000000\n", k)
		}
		os.WriteFile(filepath.Join(dir, "result.csv.tmp"), []byte(sb.String()), 0644)
		os.WriteFile(filepath.Join(dir, "result.csv.query.tmp"), []byte(strings.Repeat("stale query text ", 40)), 0644)
	}
	b, _ := os.ReadFile(filepath.Join(dir, "result.csv"))
	return b
}

func c15Scenario1(r *vlib.Run, sc c15Scenario, maxPoints int) {
	base, cleanup, ok := c15Base(r, sc)
	if !ok {
		r.Count("scenarios_skipped_no_other_filesystem", 1)
		return
	}
	defer cleanup()
	if sc.OtherFS {
		r.Count("scenarios_with_the_outfile_on_another_filesystem", 1)
	}
	gen := 0
	header, newSet := c15Expected(sc.Rows, gen)
	var oldSet map[string]int
	if sc.Existing > 0 && !sc.Append {
		_, oldSet = c15Expected(sc.Rows, 100+sc.Existing-1)
	}
	out := filepath.Join(base, "result.csv")
	query := c15Query(out, sc.Append, sc.Interim)

	judge := func(tag string, before []byte, killedAt string) {
		content, err := os.ReadFile(out)
		exists := err == nil
		if sc.Append {
			if why := c15CheckAppend(before, content, header); why != "" {
				r.Violation("append-outfile-damaged", map[string]interface{}{"scenario": sc.Name, "kill_point": killedAt, "why": why,
					"before": vlib.Trunc(string(before), 600), "after": vlib.Trunc(string(content), 1200)})
			}
			r.SetAdd("states_observed", sc.Name+"/append-ok")
			return
		}
		state, why := c15Classify(content, exists, header, oldSet, newSet)
		r.SetAdd("states_observed", fmt.Sprintf("%v/%s", sc.Existing > 0, state))
		if state == "bad" {
			r.Violation("outfile-half-written", map[string]interface{}{"scenario": sc.Name, "kill_point": killedAt, "why": why,
				"outfile": vlib.Trunc(string(content), 1500)})
			return
		}
		if state == "new" {
			q, _ := os.ReadFile(out + ".query")
			if string(q) != query {
				r.Violation("query-file-does-not-hold-the-query", map[string]interface{}{"scenario": sc.Name, "kill_point": killedAt,
					"query_file": vlib.Trunc(string(q), 400), "query": query})
			}
		}
		if state == "old" && sc.Existing == 0 {
			r.Violation("outfile-half-written", map[string]interface{}{"scenario": sc.Name, "kill_point": killedAt, "why": "unexpected content"})
		}
	}

	// reference run (no kill) with a watcher sampling the outfile continuously
	before := c15Prepare(r, base, sc)
	var watched, watchedBad int64
	var badOnce sync.Once
	watch := func() {
		content, err := os.ReadFile(out)
		atomic.AddInt64(&watched, 1)
		if sc.Append {
			if err == nil {
				if why := c15CheckAppend(before, content, header); why != "" && !strings.Contains(why, "prefix") {
					atomic.AddInt64(&watchedBad, 1)
					badOnce.Do(func() {
						r.Violation("watcher-saw-damaged-append-outfile", map[string]interface{}{"scenario": sc.Name, "why": why, "seen": vlib.Trunc(string(content), 1000)})
					})
				}
			}
			return
		}
		// a reader may catch the file between open and read of a rename: judge what was read
		state, why := c15Classify(content, err == nil, header, oldSet, newSet)
		if state == "bad" {
			atomic.AddInt64(&watchedBad, 1)
			badOnce.Do(func() {
				r.Violation("watcher-saw-half-written-outfile", map[string]interface{}{"scenario": sc.Name, "why": why, "seen": vlib.Trunc(string(content), 1000)})
			})
		}
		time.Sleep(200 * time.Microsecond)
	}
	res, evs := c15Run(r, base, sc, gen, "", watch, nil)
	r.Count("watcher_samples", int(watched))
	if res.TimedOut || res.Exit != 0 {
		// a client that fails outright is not this property's subject as long as what it leaves at the outfile path
		// is sound; the kill points of such a run cannot be enumerated: cannot decide
		judge("reference", before, "none (the run failed by itself)")
		r.Inconclusive("reference-run-failed:" + sc.Name)
		fmt.Printf("NOTE property=C15 scenario=%s reference run failed (exit %d): %s\n", sc.Name, res.Exit, vlib.Trunc(string(res.Stderr), 300))
		return
	}
	judge("reference", before, "none (complete run)")
	if !sc.Append {
		content, _ := os.ReadFile(out)
		if st, _ := c15Classify(content, true, header, nil, newSet); st != "new" {
			r.Violation("final-result-incomplete", map[string]interface{}{"scenario": sc.Name, "outfile": vlib.Trunc(string(content), 1500)})
			return
		}
	}
	// kill points from the reference trace
	type kp struct {
		name string
		hit  int
	}
	var points []kp
	for _, e := range evs {
		if strings.HasPrefix(e.Name, "out.") {
			points = append(points, kp{e.Name, e.Hit})
		}
	}
	r.Count("kill_points_listed", len(points))
	if len(points) == 0 {
		r.Inconclusive("no-hook-events")
		return
	}
	// enumerate (all, or an evenly spread subset incl. first/last of each kind in the quick tier)
	sel := points
	if len(points) > maxPoints {
		sel = nil
		seenKind := map[string]int{}
		for _, p := range points {
			seenKind[p.name]++
		}
		idx := map[string]int{}
		for i, p := range points {
			idx[p.name]++
			k := idx[p.name]
			if p.name != "out.row" || k <= 3 || k >= seenKind[p.name]-2 || i%(len(points)/maxPoints+1) == 0 {
				sel = append(sel, p)
			}
		}
	}
	hit := 0
	var mu sync.Mutex
	dirs := make(chan string, 4)
	for w := 0; w < 4; w++ {
		dirs <- fmt.Sprintf("%s-w%d", base, w)
	}
	vlib.Parallel(len(sel), 4, func(i int) {
		p := sel[i]
		d := <-dirs
		defer func() { dirs <- d }()
		reached := false
		for attempt := 0; attempt < 3 && !reached; attempt++ {
			before := c15Prepare(r, d, sc)
			// the prepared outfile path differs per worker dir: rebuild expectations with this dir
			scOut := filepath.Join(d, "result.csv")
			res, kevs := c15Run(r, d, sc, gen, fmt.Sprintf("%s=kill@%d", p.name, p.hit), nil, nil)
			for _, e := range kevs {
				if e.Name == p.name && e.Hit == p.hit {
					reached = true
				}
			}
			if !reached {
				continue // this run took fewer interim writes: the point was not reached
			}
			if res.Signal != int(syscall.SIGKILL) {
				r.Inconclusive("kill-not-delivered")
				continue
			}
			// judge with paths of this worker dir
			content, err := os.ReadFile(scOut)
			exists := err == nil
			kpName := fmt.Sprintf("%s#%d", p.name, p.hit)
			nonTrivial := p.name != "out.query.written"
			key := ""
			if nonTrivial {
				key = sc.Name + "|" + kpName
			}
			r.Eval(key)
			if sc.Append {
				if why := c15CheckAppend(before, content, header); why != "" {
					r.Violation("append-outfile-damaged", map[string]interface{}{"scenario": sc.Name, "kill_point": kpName, "why": why,
						"before": vlib.Trunc(string(before), 600), "after": vlib.Trunc(string(content), 1200)})
				}
				r.SetAdd("states_observed", "append/ok")
			} else {
				state, why := c15Classify(content, exists, header, oldSet, newSet)
				r.SetAdd("states_observed", fmt.Sprintf("existing=%v/%s", sc.Existing > 0, state))
				if state == "bad" || (state == "old" && sc.Existing == 0) {
					r.Violation("outfile-half-written", map[string]interface{}{"scenario": sc.Name, "kill_point": kpName, "why": why,
						"outfile": vlib.Trunc(string(content), 1500)})
				}
				if state == "new" {
					q, _ := os.ReadFile(scOut + ".query")
					if string(q) != c15Query(scOut, sc.Append, sc.Interim) {
						r.Violation("query-file-does-not-hold-the-query", map[string]interface{}{"scenario": sc.Name, "kill_point": kpName, "query_file": vlib.Trunc(string(q), 400)})
					}
				}
			}
			mu.Lock()
			hit++
			mu.Unlock()
		}
	})
	for w := 0; w < 4; w++ {
		os.RemoveAll(fmt.Sprintf("%s-w%d", base, w))
	}
	r.Count("kill_points_hit", hit)
	r.Count("kill_points_selected", len(sel))
	var kinds []string
	for _, p := range points {
		kinds = append(kinds, p.name)
	}
	sort.Strings(kinds)
	r.Sample(map[string]interface{}{"scenario": sc.Name, "kill_points_listed": len(points), "selected": len(sel), "hit": hit,
		"first_points": fmt.Sprint(points[:min(len(points), 8)])})
	if r.Thorough() || sc.Rows <= 3 {
		c15Strace(r, sc, base, gen, header, oldSet, newSet)
		c15WriteFaults(r, sc, base, gen, header, oldSet, newSet)
	}
}

// c15Strace: hook-free kill point enumeration. dmap runs under strace, which
// delivers SIGKILL at the N-th write/open/rename/unlink syscall; N is counted
// per thread, so the position actually hit (number of syscalls touching the
// four paths that had started) is read back from the strace log.
func c15Strace(r *vlib.Run, sc c15Scenario, base string, gen int, header string, oldSet, newSet map[string]int) {
	c15StraceMode(r, sc, base, gen, header, oldSet, newSet, "kill")
}

// c15WriteFaults: the same enumeration with a fault instead of a kill: from
// the N-th write on, every write to one of the four paths fails with ENOSPC
// (a disk running full). The run may fail; what it leaves behind is judged
// like after a kill: the outfile holds a complete old or new result.
func c15WriteFaults(r *vlib.Run, sc c15Scenario, base string, gen int, header string, oldSet, newSet map[string]int) {
	c15StraceMode(r, sc, base, gen, header, oldSet, newSet, "enospc")
}

func c15StraceMode(r *vlib.Run, sc c15Scenario, base string, gen int, header string, oldSet, newSet map[string]int, mode string) {
	if _, err := exec.LookPath("strace"); err != nil {
		r.Count("strace_unavailable", 1)
		return
	}
	d := base + "-strace-" + mode
	defer os.RemoveAll(d)
	out := filepath.Join(d, "result.csv")
	calls := "openat,write,rename,renameat,renameat2,unlink,unlinkat"
	mk := func(n int) []string {
		a := []string{"strace", "-f", "-o", filepath.Join(d, "strace.log"), "-P", out, "-P", out + ".tmp", "-P", out + ".query", "-P", out + ".query.tmp",
			"-e", "trace=" + calls}
		if n > 0 && mode == "kill" {
			a = append(a, "-e", fmt.Sprintf("inject=%s:signal=SIGKILL:when=%d", calls, n))
		}
		if n > 0 && mode == "enospc" {
			a = append(a, "-e", fmt.Sprintf("inject=write:error=ENOSPC:when=%d+", n))
		}
		return a
	}
	countTraced := func() int {
		b, _ := os.ReadFile(filepath.Join(d, "strace.log"))
		n := 0
		for _, l := range strings.Split(string(b), "\n") {
			if strings.Contains(l, "(") && !strings.Contains(l, "resumed>") && !strings.HasPrefix(strings.TrimSpace(l), "+++") {
				n++
			}
		}
		return n
	}
	// reference: K = number of path touching syscalls
	c15Prepare(r, d, sc)
	res, _ := c15Run(r, d, sc, gen, "", nil, mk(0))
	if res.Exit != 0 || res.TimedOut {
		r.Inconclusive("strace-reference-failed")
		return
	}
	K := countTraced()
	if K == 0 {
		r.Inconclusive("strace-traced-nothing")
		return
	}
	hitPos := map[int]bool{}
	budget := 3 * K
	if !r.Thorough() && budget > 90 {
		budget = 90
	}
	if sc.Interim && budget > 24 {
		budget = 24
	}
	if mode == "enospc" {
		budget = K + 2
		if !r.Thorough() && budget > 30 {
			budget = 30
		}
		if budget > 250 {
			budget = 250
		}
	}
	for n := 1; n <= budget && len(hitPos) < K; n++ {
		before := c15Prepare(r, d, sc)
		res, _ := c15Run(r, d, sc, gen, "", nil, mk(n))
		if res.TimedOut {
			r.Inconclusive("strace-run-watchdog")
			continue
		}
		if res.Exit == 0 {
			continue // N beyond what any thread issued: complete run
		}
		pos := countTraced()
		if mode == "enospc" {
			pos = n // the run goes on after the fault: the position is the injection count itself
		}
		fresh := !hitPos[pos]
		hitPos[pos] = true
		key := ""
		if fresh && pos >= 4 {
			key = fmt.Sprintf("strace-%s|%s|%d", mode, sc.Name, pos)
		}
		r.Eval(key)
		content, err := os.ReadFile(out)
		kp := fmt.Sprintf("strace: SIGKILL at path syscall #%d of %d", pos, K)
		if mode == "enospc" {
			kp = fmt.Sprintf("strace: every write to the outfile paths fails with ENOSPC from the %d-th on (per thread; %d path syscalls in a fault-free run)", n, K)
			r.Count("write_fault_runs_that_failed", 1)
		}
		if sc.Append {
			if why := c15CheckAppend(before, content, header); why != "" {
				r.Violation("append-outfile-damaged", map[string]interface{}{"scenario": sc.Name, "kill_point": kp, "why": why,
					"before": vlib.Trunc(string(before), 600), "after": vlib.Trunc(string(content), 1200)})
			}
			continue
		}
		state, why := c15Classify(content, err == nil, header, oldSet, newSet)
		r.SetAdd("states_observed", fmt.Sprintf("strace/existing=%v/%s", sc.Existing > 0, state))
		if state == "bad" || (state == "old" && sc.Existing == 0) {
			r.Violation("outfile-half-written", map[string]interface{}{"scenario": sc.Name, "kill_point": kp, "why": why, "outfile": vlib.Trunc(string(content), 1500)})
		}
		if state == "new" {
			q, _ := os.ReadFile(out + ".query")
			if string(q) != c15Query(out, sc.Append, sc.Interim) {
				r.Violation("query-file-does-not-hold-the-query", map[string]interface{}{"scenario": sc.Name, "kill_point": kp, "query_file": vlib.Trunc(string(q), 400)})
			}
		}
	}
	if mode == "enospc" {
		r.Count("write_fault_positions_tried", len(hitPos))
		return
	}
	r.Count("strace_positions_total", K)
	r.Count("strace_positions_hit", len(hitPos))
	var missing []int
	for p := 1; p <= K; p++ {
		if !hitPos[p] {
			missing = append(missing, p)
		}
	}
	if len(missing) == 0 {
		r.Count("strace_scenarios_fully_enumerated", 1)
	}
	r.Sample(map[string]interface{}{"scenario": sc.Name, "strace_path_syscalls": K, "positions_hit": len(hitPos), "positions_not_hit": fmt.Sprint(missing)})
}
