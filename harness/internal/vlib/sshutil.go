package vlib

import (
	"crypto/ecdsa"
	"crypto/ed25519"
	"crypto/elliptic"
	"crypto/rand"
	"crypto/rsa"
	"crypto/x509"
	"encoding/json"
	"encoding/pem"
	"fmt"
	"net"
	"os"
	"path/filepath"
	"strings"
	"time"

	"golang.org/x/crypto/ssh"
)

// Key is a generated key pair.
type Key struct {
	Kind    string
	Signer  ssh.Signer
	PEM     []byte // private key, PEM
	AuthKey string // authorized_keys line without comment/newline
}

// GenKey generates a key pair of the given kind: rsa, ed25519, ecdsa256, ecdsa384, ecdsa521.
func GenKey(kind string) (*Key, error) {
	var priv interface{}
	var block *pem.Block
	switch kind {
	case "rsa":
		k, err := rsa.GenerateKey(rand.Reader, 2048)
		if err != nil {
			return nil, err
		}
		priv = k
		block = &pem.Block{Type: "RSA PRIVATE KEY", Bytes: x509.MarshalPKCS1PrivateKey(k)}
	case "ed25519":
		_, k, err := ed25519.GenerateKey(rand.Reader)
		if err != nil {
			return nil, err
		}
		priv = k
		b, err := ssh.MarshalPrivateKey(k, "")
		if err != nil {
			return nil, err
		}
		block = b
	case "ecdsa256", "ecdsa384", "ecdsa521":
		curve := elliptic.P256()
		if kind == "ecdsa384" {
			curve = elliptic.P384()
		} else if kind == "ecdsa521" {
			curve = elliptic.P521()
		}
		k, err := ecdsa.GenerateKey(curve, rand.Reader)
		if err != nil {
			return nil, err
		}
		priv = k
		der, err := x509.MarshalECPrivateKey(k)
		if err != nil {
			return nil, err
		}
		block = &pem.Block{Type: "EC PRIVATE KEY", Bytes: der}
	default:
		return nil, fmt.Errorf("unknown key kind %s", kind)
	}
	signer, err := ssh.NewSignerFromKey(priv)
	if err != nil {
		return nil, err
	}
	return &Key{
		Kind:    kind,
		Signer:  signer,
		PEM:     pem.EncodeToMemory(block),
		AuthKey: strings.TrimSpace(string(ssh.MarshalAuthorizedKey(signer.PublicKey()))),
	}, nil
}

// ServerSpec describes one dtail server child.
type ServerSpec struct {
	Name     string // host name reported by the server (DTAIL_HOSTNAME_OVERRIDE)
	Hostname string // if set: the (fully qualified) name given to the server instead of Name
	Dir      string // working directory (holds cache/, config, log)
	Port     int
	Server   map[string]interface{} // "Server" section of the config
	Common   map[string]interface{} // "Common" section overrides
	LogLevel string                 // default info
	Env      []string               // extra environment (VERIF_TRACE, VERIF_POINTS...)
	Users    map[string][]string    // user -> authorized_keys lines
	HostKey  *Key                   // server host key (RSA)
	Race     bool                   // use the -race build of vcheck
}

// Server is a running dtail server child.
type Server struct {
	Spec *ServerSpec
	D    *Daemon
}

// sharedHostKey is generated once per process (RSA 2048 generation costs ~100ms).
var sharedHostKey *Key

// HostKey returns a process wide RSA host key.
func HostKey() *Key {
	if sharedHostKey == nil {
		k, err := GenKey("rsa")
		if err != nil {
			panic(err)
		}
		sharedHostKey = k
	}
	return sharedHostKey
}

// StartServer writes config, host key and authorized keys and starts
// `vcheck child server` (dserver's main without the root check).
func (r *Run) StartServer(spec *ServerSpec) (*Server, error) {
	if spec.Dir == "" {
		spec.Dir = r.Dir("srv-" + spec.Name)
	}
	os.MkdirAll(filepath.Join(spec.Dir, "cache"), 0755)
	os.MkdirAll(filepath.Join(spec.Dir, "log"), 0755)
	if spec.HostKey == nil {
		spec.HostKey = HostKey()
	}
	hostKeyFile := filepath.Join(spec.Dir, "cache", "ssh_host_key")
	if err := os.WriteFile(hostKeyFile, spec.HostKey.PEM, 0600); err != nil {
		return nil, err
	}
	for user, lines := range spec.Users {
		p := filepath.Join(spec.Dir, "cache", user+".authorized_keys")
		if err := os.WriteFile(p, []byte(strings.Join(lines, "\n")+"\n"), 0644); err != nil {
			return nil, err
		}
	}
	srv := map[string]interface{}{
		"SSHBindAddress": "127.0.0.1",
		"HostKeyFile":    hostKeyFile,
		"HostKeyBits":    2048,
	}
	for k, v := range spec.Server {
		srv[k] = v
	}
	common := map[string]interface{}{
		"LogDir":   filepath.Join(spec.Dir, "log"),
		"CacheDir": "cache",
	}
	for k, v := range spec.Common {
		common[k] = v
	}
	cfg, _ := json.MarshalIndent(map[string]interface{}{"Server": srv, "Common": common}, "", " ")
	cfgFile := filepath.Join(spec.Dir, "dserver.cfg")
	if err := os.WriteFile(cfgFile, cfg, 0644); err != nil {
		return nil, err
	}
	if spec.Port == 0 {
		spec.Port = FreePort()
	}
	lvl := spec.LogLevel
	if lvl == "" {
		lvl = "info"
	}
	hostname := spec.Name
	if spec.Hostname != "" {
		hostname = spec.Hostname
	}
	env := append([]string{"DTAIL_HOSTNAME_OVERRIDE=" + hostname}, spec.Env...)
	bin, ok := r.WorkerBin("server")
	if !ok {
		return nil, fmt.Errorf("server worker unavailable")
	}
	d, err := StartDaemon(bin,
		[]string{"child", "server", "-cfg", cfgFile, "-port", fmt.Sprint(spec.Port), "-logLevel", lvl},
		env, spec.Dir, filepath.Join(spec.Dir, "server.out"))
	if err != nil {
		return nil, err
	}
	if !WaitPort(spec.Port, 20*time.Second) {
		d.Stop()
		return nil, fmt.Errorf("server %s did not open port %d: %s", spec.Name, spec.Port, Trunc(string(d.Log()), 2000))
	}
	return &Server{Spec: spec, D: d}, nil
}

// Addr returns host:port of the server.
func (s *Server) Addr() string { return fmt.Sprintf("127.0.0.1:%d", s.Spec.Port) }

// Stop the server.
func (s *Server) Stop() {
	if s != nil && s.D != nil {
		s.D.Stop()
	}
}

// ClientHome prepares a HOME directory for real dtail clients: private key at
// $HOME/.ssh/id_rsa (returned) and an empty known_hosts.
func (r *Run) ClientHome(name string, key *Key) (home, keyFile string) {
	home = r.Dir("home-" + name)
	os.MkdirAll(filepath.Join(home, ".ssh"), 0700)
	keyFile = filepath.Join(home, ".ssh", "id_rsa")
	os.WriteFile(keyFile, key.PEM, 0600)
	return
}

// SSHDial opens an SSH connection to addr as user with the given auth.
func SSHDial(addr, user string, auth []ssh.AuthMethod, local string) (*ssh.Client, error) {
	cfg := &ssh.ClientConfig{
		User:            user,
		Auth:            auth,
		HostKeyCallback: ssh.InsecureIgnoreHostKey(),
		Timeout:         10 * time.Second,
	}
	d := net.Dialer{Timeout: 10 * time.Second}
	if local != "" {
		d.LocalAddr = &net.TCPAddr{IP: net.ParseIP(local)}
	}
	conn, err := d.Dial("tcp", addr)
	if err != nil {
		return nil, err
	}
	conn.SetDeadline(time.Now().Add(30 * time.Second))
	c, chans, reqs, err := ssh.NewClientConn(conn, addr, cfg)
	if err != nil {
		conn.Close()
		return nil, err
	}
	conn.SetDeadline(time.Time{})
	return ssh.NewClient(c, chans, reqs), nil
}
