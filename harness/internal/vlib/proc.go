package vlib

import (
	"bytes"
	"fmt"
	"io"
	"net"
	"os"
	"os/exec"
	"path/filepath"
	"strconv"
	"strings"
	"sync"
	"syscall"
	"time"
)

// Cmd describes a child process run. Children are always exec'ed directly (no
// shell), so the pid is the process that is meant.
type Cmd struct {
	Path  string
	Args  []string
	Env   []string // additions to a minimal environment
	Dir   string
	Stdin []byte // nil => /dev/null
	// StdinFile, if set, is opened and used as stdin.
	StdinFile string
	// StdoutTo, if set, receives stdout instead of the capture buffer.
	StdoutTo *os.File
	// StderrTo, if set, receives stderr instead of the capture buffer.
	StderrTo *os.File
	// Watchdog is the generous wall-clock limit; its firing alone is never a
	// verdict. Zero means 180s.
	Watchdog time.Duration
	// NoHangCheck disables the idle detection (for children which are
	// expected to sit idle, e.g. servers).
	NoHangCheck bool
	// OutProgress, if set, is polled for output progress (bytes consumed so
	// far by the harness-owned consumer).
	OutProgress func() int64
	// Busy, if set and returning true, tells the hang detector that the
	// harness itself still has something outstanding for the child (e.g. a
	// deliberate stall of the consumer), so idleness is expected.
	Busy func() bool
	// OnStart, if set, is called right after the child was started.
	OnStart func(pid int)
}

// Result of a child run.
type Result struct {
	Stdout   []byte
	Stderr   []byte
	Exit     int  // exit status, -1 if killed by a signal
	Signal   int  // signal number if killed by one
	Hung     bool // decided by the logical rule: idle with nothing outstanding
	TimedOut bool // watchdog fired while still busy => inconclusive
	Wall     time.Duration
	Pid      int
}

// Panicked reports whether the child died of a Go panic or fatal error.
func (r *Result) Panicked() bool {
	s := r.Stderr
	if bytes.Contains(s, []byte("panic: ")) || bytes.Contains(s, []byte("fatal error: ")) ||
		bytes.Contains(s, []byte("[signal SIG")) {
		return !r.Hung && !r.TimedOut
	}
	return false
}

// ExtraEnv is appended to the environment of every child (race pass: GORACE).
var ExtraEnv []string

// BaseEnv is the minimal environment for children.
func BaseEnv(home string) []string {
	env := []string{
		"PATH=/usr/local/sbin:/usr/local/bin:/usr/sbin:/usr/bin:/sbin:/bin",
		"LANG=C",
		"TERM=dumb",
	}
	if home != "" {
		env = append(env, "HOME="+home)
	} else {
		env = append(env, "HOME="+os.Getenv("HOME"))
	}
	env = append(env, ExtraEnv...)
	if d := os.Getenv("GOCOVERDIR"); d != "" { // scripts/coverage.sh only
		env = append(env, "GOCOVERDIR="+d)
	}
	return env
}

type lockedBuf struct {
	mu sync.Mutex
	b  bytes.Buffer
}

func (l *lockedBuf) Write(p []byte) (int, error) {
	l.mu.Lock()
	defer l.mu.Unlock()
	return l.b.Write(p)
}
func (l *lockedBuf) Len() int64 {
	l.mu.Lock()
	defer l.mu.Unlock()
	return int64(l.b.Len())
}
func (l *lockedBuf) Bytes() []byte {
	l.mu.Lock()
	defer l.mu.Unlock()
	return append([]byte(nil), l.b.Bytes()...)
}

// CPUTicks returns utime+stime of a pid (clock ticks) and whether the process exists.
func CPUTicks(pid int) (int64, bool) {
	b, err := os.ReadFile(fmt.Sprintf("/proc/%d/stat", pid))
	if err != nil {
		return 0, false
	}
	s := string(b)
	i := strings.LastIndex(s, ")")
	if i < 0 {
		return 0, false
	}
	f := strings.Fields(s[i+1:])
	if len(f) < 14 {
		return 0, false
	}
	if f[0] == "Z" {
		return 0, false
	}
	ut, _ := strconv.ParseInt(f[11], 10, 64)
	st, _ := strconv.ParseInt(f[12], 10, 64)
	return ut + st, true
}

// PidsBusy returns a Busy function for Cmd: it reports true while any of the given processes (the servers a client is
// waiting for) has used CPU since the previous call. A client that sits idle because its server is still working is
// not hung; client and servers idle together are.
func PidsBusy(pids ...int) func() bool {
	var mu sync.Mutex
	last := map[int]int64{}
	return func() bool {
		mu.Lock()
		defer mu.Unlock()
		busy := false
		for _, p := range pids {
			t, ok := CPUTicks(p)
			if !ok {
				continue
			}
			if prev, seen := last[p]; !seen || t-prev > 2 {
				busy = true
			}
			last[p] = t
		}
		return busy
	}
}

// AllThreadsSleeping reports whether every thread of pid is in state S.
func AllThreadsSleeping(pid int) bool {
	ents, err := os.ReadDir(fmt.Sprintf("/proc/%d/task", pid))
	if err != nil {
		return false
	}
	for _, e := range ents {
		b, err := os.ReadFile(fmt.Sprintf("/proc/%d/task/%s/stat", pid, e.Name()))
		if err != nil {
			continue
		}
		s := string(b)
		i := strings.LastIndex(s, ")")
		if i < 0 {
			continue
		}
		f := strings.Fields(s[i+1:])
		if len(f) > 0 && f[0] != "S" {
			return false
		}
	}
	return true
}

// Start-and-wait with hang detection in logical terms: the child is "hung"
// iff the harness has nothing outstanding for it and over 8 consecutive
// samples (2.5s apart) its CPU time advanced by at most 3 ticks in total, its
// output did not grow and all its threads were sleeping.
func RunCmd(c Cmd) *Result {
	res := &Result{Exit: -1}
	cmd := exec.Command(c.Path, c.Args...)
	cmd.Dir = c.Dir
	cmd.Env = append(BaseEnv(""), c.Env...)
	// last HOME wins: make sure an explicit HOME in c.Env overrides.
	var so, se lockedBuf
	if c.StdoutTo != nil {
		cmd.Stdout = c.StdoutTo
	} else {
		cmd.Stdout = &so
	}
	if c.StderrTo != nil {
		cmd.Stderr = c.StderrTo
	} else {
		cmd.Stderr = &se
	}
	switch {
	case c.StdinFile != "":
		fd, err := os.Open(c.StdinFile)
		if err != nil {
			res.Stderr = []byte("harness: " + err.Error())
			res.TimedOut = true
			return res
		}
		defer fd.Close()
		cmd.Stdin = fd
	case c.Stdin != nil:
		cmd.Stdin = bytes.NewReader(c.Stdin)
	default:
		// nil Stdin => /dev/null (exec's default)
	}
	cmd.SysProcAttr = &syscall.SysProcAttr{Setpgid: true}
	start := time.Now()
	if err := cmd.Start(); err != nil {
		res.Stderr = []byte("harness: start failed: " + err.Error())
		res.TimedOut = true
		return res
	}
	res.Pid = cmd.Process.Pid
	if c.OnStart != nil {
		c.OnStart(res.Pid)
	}
	done := make(chan error, 1)
	go func() { done <- cmd.Wait() }()

	watchdog := c.Watchdog
	if watchdog == 0 {
		watchdog = 180 * time.Second
	}
	progress := func() int64 {
		n := so.Len() + se.Len()
		if c.OutProgress != nil {
			n += c.OutProgress()
		}
		return n
	}

	var err error
	tick := time.NewTicker(2500 * time.Millisecond)
	defer tick.Stop()
	var idleSamples int
	var winStartTicks int64
	lastProg := int64(-1)
loop:
	for {
		select {
		case err = <-done:
			break loop
		case <-tick.C:
			if time.Since(start) > watchdog {
				res.TimedOut = true
				syscall.Kill(-res.Pid, syscall.SIGABRT)
				select {
				case err = <-done:
				case <-time.After(5 * time.Second):
					syscall.Kill(-res.Pid, syscall.SIGKILL)
					err = <-done
				}
				break loop
			}
			if c.NoHangCheck {
				continue
			}
			ticks, ok := CPUTicks(res.Pid)
			prog := progress()
			busy := c.Busy != nil && c.Busy()
			if !ok || busy || prog != lastProg || !AllThreadsSleeping(res.Pid) {
				idleSamples = 0
				winStartTicks = ticks
				lastProg = prog
				continue
			}
			if idleSamples == 0 {
				winStartTicks = ticks
			}
			if ticks-winStartTicks > 3 {
				idleSamples = 0
				winStartTicks = ticks
				continue
			}
			idleSamples++
			if idleSamples >= 8 {
				res.Hung = true
				syscall.Kill(-res.Pid, syscall.SIGABRT)
				select {
				case err = <-done:
				case <-time.After(5 * time.Second):
					syscall.Kill(-res.Pid, syscall.SIGKILL)
					err = <-done
				}
				break loop
			}
		}
	}
	res.Wall = time.Since(start)
	res.Stdout = so.Bytes()
	res.Stderr = se.Bytes()
	if err == nil {
		res.Exit = 0
	} else if ee, ok := err.(*exec.ExitError); ok {
		if ws, ok := ee.Sys().(syscall.WaitStatus); ok {
			if ws.Signaled() {
				res.Exit = -1
				res.Signal = int(ws.Signal())
			} else {
				res.Exit = ws.ExitStatus()
			}
		}
	} else {
		res.Stderr = append(res.Stderr, []byte("\nharness: wait: "+err.Error())...)
	}
	return res
}

// FreePort returns a TCP port which was free a moment ago.
func FreePort() int {
	l, err := net.Listen("tcp", "127.0.0.1:0")
	if err != nil {
		return 0
	}
	defer l.Close()
	return l.Addr().(*net.TCPAddr).Port
}

// WaitPort waits until something accepts connections on 127.0.0.1:port.
func WaitPort(port int, max time.Duration) bool {
	deadline := time.Now().Add(max)
	for time.Now().Before(deadline) {
		c, err := net.DialTimeout("tcp", fmt.Sprintf("127.0.0.1:%d", port), time.Second)
		if err == nil {
			c.Close()
			return true
		}
		time.Sleep(20 * time.Millisecond)
	}
	return false
}

// Daemon is a long running child (server, fake sshd, cpu hog).
type Daemon struct {
	Cmd     *exec.Cmd
	LogPath string
	logFd   *os.File
	exited  chan struct{}
	mu      sync.Mutex
	waitErr error
}

// StartDaemon starts a long running child with stdout+stderr to logPath.
func StartDaemon(path string, args []string, env []string, dir, logPath string) (*Daemon, error) {
	fd, err := os.OpenFile(logPath, os.O_CREATE|os.O_WRONLY|os.O_APPEND, 0644)
	if err != nil {
		return nil, err
	}
	cmd := exec.Command(path, args...)
	cmd.Dir = dir
	cmd.Env = append(BaseEnv(""), env...)
	cmd.Stdout = fd
	cmd.Stderr = fd
	cmd.SysProcAttr = &syscall.SysProcAttr{Setpgid: true, Pdeathsig: syscall.SIGKILL}
	if err := cmd.Start(); err != nil {
		fd.Close()
		return nil, err
	}
	d := &Daemon{Cmd: cmd, LogPath: logPath, logFd: fd, exited: make(chan struct{})}
	go func() {
		err := cmd.Wait()
		d.mu.Lock()
		d.waitErr = err
		d.mu.Unlock()
		close(d.exited)
	}()
	return d, nil
}

// Pid of the daemon.
func (d *Daemon) Pid() int { return d.Cmd.Process.Pid }

// Alive reports whether the daemon has not exited.
func (d *Daemon) Alive() bool {
	select {
	case <-d.exited:
		return false
	default:
		return true
	}
}

// Stop kills the daemon.
func (d *Daemon) Stop() {
	if d == nil {
		return
	}
	if d.Alive() {
		syscall.Kill(-d.Pid(), syscall.SIGKILL)
		<-d.exited
	}
	d.logFd.Close()
}

// Log returns the daemon's log so far.
func (d *Daemon) Log() []byte {
	b, _ := os.ReadFile(d.LogPath)
	return b
}

// OpenFilesUnder lists the targets of the fds of pid whose path is under dir.
func OpenFilesUnder(pid int, dir string) []string {
	var out []string
	fdDir := fmt.Sprintf("/proc/%d/fd", pid)
	ents, err := os.ReadDir(fdDir)
	if err != nil {
		return nil
	}
	for _, e := range ents {
		t, err := os.Readlink(filepath.Join(fdDir, e.Name()))
		if err != nil {
			continue
		}
		if strings.HasPrefix(t, dir) {
			out = append(out, t)
		}
	}
	return out
}

// Discard is an io.Writer which counts.
type CountWriter struct {
	mu sync.Mutex
	N  int64
	W  io.Writer
}

func (c *CountWriter) Write(p []byte) (int, error) {
	c.mu.Lock()
	c.N += int64(len(p))
	c.mu.Unlock()
	if c.W != nil {
		return c.W.Write(p)
	}
	return len(p), nil
}
