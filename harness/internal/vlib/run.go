// Package vlib holds what all property drivers share: the run context
// (seed, tier, scratch directory), the evidence writer, the violation /
// known-finding reporter and process helpers.
package vlib

import (
	"bufio"
	"encoding/json"
	"fmt"
	"math/rand"
	"os"
	"path/filepath"
	"sort"
	"strings"
	"sync"
	"time"
)

// VerifDir is the root of the verification tree.
var VerifDir = func() string {
	if d := os.Getenv("VERIF_DIR"); d != "" {
		return d
	}
	return "/verif"
}()

// Run is the context of one check run.
type Run struct {
	Property string
	Tier     string
	Seed     int64
	Level    string // exploration | fault_enumeration
	Scratch  string
	BinDir   string
	Replay   string // --replay argument ("" normally)
	// Race is set during the race-detector pass: binaries are the -race
	// builds, counts are reduced, children log race reports to RaceDir.
	Race    bool
	RaceDir string
	start   time.Time

	mu            sync.Mutex
	evaluations   int
	inconclusive  int
	violations    int
	distinct      map[string]struct{}
	distinctExtra int
	samples       []interface{}
	extra         map[string]interface{}
	assumptions   []string
	rule          string
	exhaustive    bool
	knownFindings map[string]string // sig -> description (from file)
	knownSeen     map[string]int    // sig -> count seen this run
	counters      map[string]int
	sets          map[string]map[string]struct{}
}

// NewRun creates the run context and the scratch directory.
func NewRun(property, tier string, seed int64, replay string) *Run {
	base := os.Getenv("VERIF_SCRATCH_BASE")
	if base == "" {
		base = os.TempDir()
	}
	scratch, err := os.MkdirTemp(base, "verif-"+property+"-")
	if err != nil {
		fmt.Fprintln(os.Stderr, "cannot create scratch dir:", err)
		os.Exit(2)
	}
	r := &Run{
		Property:      property,
		Tier:          tier,
		Seed:          seed,
		Level:         "exploration",
		Scratch:       scratch,
		BinDir:        filepath.Join(VerifDir, ".build", "bin"),
		Replay:        replay,
		start:         time.Now(),
		distinct:      map[string]struct{}{},
		extra:         map[string]interface{}{},
		knownFindings: map[string]string{},
		knownSeen:     map[string]int{},
		counters:      map[string]int{},
		sets:          map[string]map[string]struct{}{},
	}
	if d := os.Getenv("VERIF_BIN_DIR"); d != "" {
		r.BinDir = d
	}
	r.loadKnownFindings()
	return r
}

// Thorough reports whether the thorough tier runs.
func (r *Run) Thorough() bool { return r.Tier == "thorough" && !r.Race }

// N picks the tier dependent count.
func (r *Run) N(quick, thorough int) int {
	if r.Race {
		v := quick / 4
		if v < 6 {
			v = 6
		}
		if v > quick {
			v = quick
		}
		return v
	}
	if r.Thorough() {
		return thorough
	}
	return quick
}

// Rng returns a PRNG which is a pure function of (seed, property, label).
func (r *Run) Rng(label string) *rand.Rand {
	h := uint64(1469598103934665603)
	for _, b := range []byte(r.Property + "/" + label) {
		h ^= uint64(b)
		h *= 1099511628211
	}
	return rand.New(rand.NewSource(int64(h) ^ (r.Seed * 0x5851F42D4C957F2D)))
}

// Bin returns the path of a built binary.
func (r *Run) Bin(name string) string {
	if r.Race {
		p := filepath.Join(r.BinDir, name+"-race")
		if _, err := os.Stat(p); err == nil {
			return p
		}
	}
	return filepath.Join(r.BinDir, name)
}

// workerOf maps a child mode to the worker binary that contains it. Each
// worker is a separate build of the harness (build tag w_<name>) so that a
// change of an internal dtail API breaks at most the in-process tier that uses
// it; the drivers and the end-to-end tiers keep working.
var workerOf = map[string]string{
	"server": "server", "c03api": "c03", "c04api": "c04", "c05": "mapr", "c05wire": "mapr", "c11": "mapr", "c11conc": "mapr", "c06merge": "mapr", "c06agg": "mapr", "c15noncum": "mapr",
	"c08api": "c08", "c10handler": "c10", "c16pure": "c16", "c16conc": "c16", "c16handler": "c16", "c16table": "c16", "c18api": "c18",
}

// WorkerBin returns the binary for a child mode and whether it exists.
func (r *Run) WorkerBin(mode string) (string, bool) {
	w, ok := workerOf[mode]
	if !ok {
		return r.Bin("vcheck"), true
	}
	p := r.Bin("vcheck-w-" + w)
	if _, err := os.Stat(p); err != nil {
		r.mu.Lock()
		first := r.counters["worker_unavailable:"+w] == 0
		r.counters["worker_unavailable:"+w]++
		r.mu.Unlock()
		if first {
			fmt.Printf("WORKER-UNAVAILABLE property=%s worker=%s (does not build against this tree; its in-process tier is skipped)\n", r.Property, w)
		}
		return p, false
	}
	return p, true
}

// Dir creates (if needed) and returns a sub directory of the scratch dir.
func (r *Run) Dir(parts ...string) string {
	d := filepath.Join(append([]string{r.Scratch}, parts...)...)
	os.MkdirAll(d, 0755)
	return d
}

// Cleanup removes the scratch directory.
func (r *Run) Cleanup() {
	if os.Getenv("VERIF_KEEP_SCRATCH") == "" {
		os.RemoveAll(r.Scratch)
	}
}

func (r *Run) loadKnownFindings() {
	fd, err := os.Open(filepath.Join(VerifDir, "KNOWN_FINDINGS.txt"))
	if err != nil {
		return
	}
	defer fd.Close()
	sc := bufio.NewScanner(fd)
	for sc.Scan() {
		line := strings.TrimSpace(sc.Text())
		if !strings.HasPrefix(line, "finding:") {
			continue // "fixed:" lines and comments suppress nothing
		}
		var prop, sig string
		for _, f := range strings.Fields(line) {
			if strings.HasPrefix(f, "property=") {
				prop = strings.TrimPrefix(f, "property=")
			}
			if strings.HasPrefix(f, "sig=") {
				sig = strings.TrimPrefix(f, "sig=")
			}
		}
		if prop == r.Property && sig != "" {
			r.knownFindings[sig] = strings.TrimSpace(strings.TrimPrefix(line, "finding:"))
		}
	}
}

// IsKnown reports whether a finding signature is listed in KNOWN_FINDINGS.txt
// for this property.
func (r *Run) IsKnown(sig string) bool {
	_, ok := r.knownFindings[sig]
	return ok
}

// Known records that a deviation matching a listed finding was observed.
// Returns false (and does nothing) if the signature is not listed: the caller
// must then report a violation.
func (r *Run) Known(sig, what string) bool {
	r.mu.Lock()
	defer r.mu.Unlock()
	if _, ok := r.knownFindings[sig]; !ok {
		return false
	}
	r.knownSeen[sig]++
	if r.knownSeen[sig] == 1 {
		fmt.Printf("KNOWN-FINDING: property=%s sig=%s %s\n", r.Property, sig, what)
	}
	return true
}

// Eval counts one evaluated case; key identifies distinct non-trivial cases
// ("" = trivial, not counted as distinct).
func (r *Run) Eval(key string) {
	r.mu.Lock()
	r.evaluations++
	if key != "" {
		r.distinct[key] = struct{}{}
	}
	r.mu.Unlock()
}

// Evals counts n evaluated cases at once.
func (r *Run) Evals(n int) {
	r.mu.Lock()
	r.evaluations += n
	r.mu.Unlock()
}

// Distinct records a distinct non-trivial case key without counting an evaluation.
func (r *Run) Distinct(key string) {
	r.mu.Lock()
	r.distinct[key] = struct{}{}
	r.mu.Unlock()
}

// DistinctN adds n cases which are distinct by construction (enumerations).
func (r *Run) DistinctN(n int) {
	r.mu.Lock()
	r.distinctExtra += n
	r.mu.Unlock()
}

// Inconclusive counts a case which could not be decided.
func (r *Run) Inconclusive(why string) {
	r.mu.Lock()
	r.inconclusive++
	r.counters["inconclusive:"+why]++
	r.mu.Unlock()
}

// Count increments a named counter reported in the evidence.
func (r *Run) Count(name string, n int) {
	r.mu.Lock()
	r.counters[name] += n
	r.mu.Unlock()
}

// Max keeps the maximum of a named value.
func (r *Run) Max(name string, v int) {
	r.mu.Lock()
	if v > r.counters[name] {
		r.counters[name] = v
	}
	r.mu.Unlock()
}

// SetAdd adds a member to a named set whose size is reported in the evidence.
func (r *Run) SetAdd(name, member string) {
	r.mu.Lock()
	s := r.sets[name]
	if s == nil {
		s = map[string]struct{}{}
		r.sets[name] = s
	}
	s[member] = struct{}{}
	r.mu.Unlock()
}

// SetSize returns the size of a named set.
func (r *Run) SetSize(name string) int {
	r.mu.Lock()
	defer r.mu.Unlock()
	return len(r.sets[name])
}

// Sample stores an example case for the evidence (first maxSamples only).
func (r *Run) Sample(s interface{}) {
	r.mu.Lock()
	if len(r.samples) < 12 {
		r.samples = append(r.samples, s)
	}
	r.mu.Unlock()
}

// Extra stores an additional coverage key.
func (r *Run) Extra(key string, v interface{}) {
	r.mu.Lock()
	r.extra[key] = v
	r.mu.Unlock()
}

// Assume records an assumption for the evidence.
func (r *Run) Assume(s string) {
	r.mu.Lock()
	for _, a := range r.assumptions {
		if a == s {
			r.mu.Unlock()
			return
		}
	}
	r.assumptions = append(r.assumptions, s)
	r.mu.Unlock()
}

// Rule sets the rule text of the evidence.
func (r *Run) Rule(s string) { r.rule = s }

// Exhaustive marks the run as a complete enumeration.
func (r *Run) Exhaustive(b bool) { r.exhaustive = b }

// Violations returns the number of violations so far.
func (r *Run) Violations() int {
	r.mu.Lock()
	defer r.mu.Unlock()
	return r.violations
}

// Violation writes the replay file first and then prints the VIOLATION line.
func (r *Run) Violation(caseName string, detail interface{}) {
	r.mu.Lock()
	r.violations++
	n := r.violations
	r.counters["violation:"+caseName]++
	r.mu.Unlock()
	if n > 25 {
		return // enough witnesses
	}
	dir := filepath.Join(VerifDir, "replay", r.Property)
	os.MkdirAll(dir, 0755)
	safe := strings.Map(func(c rune) rune {
		if c >= 'a' && c <= 'z' || c >= 'A' && c <= 'Z' || c >= '0' && c <= '9' || c == '-' || c == '_' || c == '.' {
			return c
		}
		return '_'
	}, caseName)
	if len(safe) > 80 {
		safe = safe[:80]
	}
	path := filepath.Join(dir, fmt.Sprintf("%s-seed%d-%s-%d.json", r.Tier, r.Seed, safe, n))
	body, err := json.MarshalIndent(map[string]interface{}{
		"property": r.Property, "tier": r.Tier, "seed": r.Seed,
		"case": caseName, "detail": detail,
	}, "", " ")
	if err != nil {
		body = []byte(fmt.Sprintf("%q", fmt.Sprint(detail)))
	}
	os.WriteFile(path, body, 0644)
	fmt.Printf("VIOLATION property=%s replay=%s\n", r.Property, path)
	fmt.Printf("  case=%s detail=%s\n", caseName, Trunc(string(body), 1500))
}

// Trunc shortens a string for display.
func Trunc(s string, n int) string {
	if len(s) <= n {
		return s
	}
	return s[:n] + fmt.Sprintf("...(+%d bytes)", len(s)-n)
}

// Finish writes the evidence file and returns the exit status.
func (r *Run) Finish(minConclusive int) int {
	r.mu.Lock()
	defer r.mu.Unlock()

	cov := map[string]interface{}{}
	for k, v := range r.extra {
		cov[k] = v
	}
	cov["evaluations"] = r.evaluations
	cov["distinct_nontrivial"] = len(r.distinct) + r.distinctExtra
	cov["rule"] = r.rule
	if len(r.samples) == 0 {
		r.samples = append(r.samples, "no sample recorded")
	}
	cov["samples"] = r.samples
	cov["exhaustive"] = r.exhaustive
	cov["inconclusive"] = r.inconclusive
	counters := map[string]int{}
	for k, v := range r.counters {
		counters[k] = v
	}
	for k, s := range r.sets {
		counters["distinct:"+k] = len(s)
	}
	cov["observed"] = counters
	known := []string{}
	for sig, n := range r.knownSeen {
		known = append(known, fmt.Sprintf("%s x%d", sig, n))
	}
	sort.Strings(known)
	cov["known_findings_reproduced"] = known

	ev := map[string]interface{}{
		"property_id": r.Property,
		"tier":        r.Tier,
		"seed":        r.Seed,
		"level":       r.Level,
		"coverage":    cov,
		"assumptions": append([]string{}, r.assumptions...),
		"wall_s":      time.Since(r.start).Seconds(),
		"violations":  r.violations,
	}
	body, _ := json.MarshalIndent(ev, "", " ")
	dir := filepath.Join(VerifDir, "evidence")
	os.MkdirAll(dir, 0755)
	tmp := filepath.Join(dir, "."+r.Property+".json.tmp")
	os.WriteFile(tmp, append(body, '\n'), 0644)
	os.Rename(tmp, filepath.Join(dir, r.Property+".json"))

	fmt.Printf("%s %s seed=%d: evaluations=%d distinct=%d inconclusive=%d violations=%d known=%v wall=%.1fs\n",
		r.Property, r.Tier, r.Seed, r.evaluations, len(r.distinct)+r.distinctExtra, r.inconclusive,
		r.violations, known, time.Since(r.start).Seconds())
	keys := make([]string, 0, len(counters))
	for k := range counters {
		keys = append(keys, k)
	}
	sort.Strings(keys)
	for _, k := range keys {
		fmt.Printf("  observed %s = %d\n", k, counters[k])
	}

	if r.violations > 0 {
		return 1
	}
	if r.evaluations-r.inconclusive < minConclusive {
		fmt.Printf("INCONCLUSIVE property=%s: only %d conclusive cases (< %d)\n",
			r.Property, r.evaluations-r.inconclusive, minConclusive)
		return 3
	}
	return 0
}

// Parallel runs fn(i) for i in [0,n) on `workers` goroutines.
func Parallel(n, workers int, fn func(i int)) {
	if workers < 1 {
		workers = 1
	}
	var wg sync.WaitGroup
	ch := make(chan int)
	for w := 0; w < workers; w++ {
		wg.Add(1)
		go func() {
			defer wg.Done()
			for i := range ch {
				fn(i)
			}
		}()
	}
	for i := 0; i < n; i++ {
		ch <- i
	}
	close(ch)
	wg.Wait()
}
