package vlib

import (
	"bufio"
	"encoding/json"
	"fmt"
	"os"
	"path/filepath"
	"sync/atomic"
	"time"
)

// Batch protocol: the parent writes the cases of a batch as JSON lines to
// <dir>/in.jsonl and starts `vcheck child <mode> <dir> [args]`. The child logs
// the index of each case to <dir>/progress (one line, written before the case
// is applied) and appends one JSON line per finished case to <dir>/out.jsonl.
// A process-fatal panic in any goroutine of the worker therefore still leaves
// the culprit identifiable: the last index in progress without a result.

// BatchCrash describes a worker which died.
type BatchCrash struct {
	Index  int // index (within the whole case list) of the case being applied
	Result *Result
}

var batchSeq int64

// RunBatches splits cases into batches of size n and runs them on `workers`
// child processes in parallel. results[i] is nil if case i produced no result.
func (r *Run) RunBatches(mode string, cases []interface{}, n, workers int, extraArgs []string, env []string) ([]json.RawMessage, []BatchCrash) {
	results := make([]json.RawMessage, len(cases))
	var crashes []BatchCrash
	type job struct{ lo, hi int }
	var jobs []job
	for lo := 0; lo < len(cases); lo += n {
		hi := lo + n
		if hi > len(cases) {
			hi = len(cases)
		}
		jobs = append(jobs, job{lo, hi})
	}
	crashCh := make(chan BatchCrash, len(jobs)+len(cases))
	Parallel(len(jobs), workers, func(j int) {
		lo, hi := jobs[j].lo, jobs[j].hi
		for lo < hi {
			dir := r.Dir(fmt.Sprintf("batch-%s-%d", mode, atomic.AddInt64(&batchSeq, 1)))
			fd, _ := os.Create(filepath.Join(dir, "in.jsonl"))
			w := bufio.NewWriter(fd)
			for i := lo; i < hi; i++ {
				b, _ := json.Marshal(cases[i])
				w.Write(b)
				w.WriteByte('\n')
			}
			w.Flush()
			fd.Close()
			res := RunCmd(Cmd{
				Path:     r.Bin("vcheck"),
				Args:     append([]string{"child", mode, dir}, extraArgs...),
				Env:      env,
				Dir:      dir,
				Watchdog: 20 * time.Minute,
			})
			// collect results
			done := 0
			if out, err := os.Open(filepath.Join(dir, "out.jsonl")); err == nil {
				sc := bufio.NewScanner(out)
				sc.Buffer(make([]byte, 1<<20), 1<<28)
				for sc.Scan() {
					var rec struct {
						I int             `json:"i"`
						R json.RawMessage `json:"r"`
					}
					if json.Unmarshal(sc.Bytes(), &rec) == nil && lo+rec.I < hi {
						results[lo+rec.I] = append(json.RawMessage(nil), rec.R...)
						if rec.I+1 > done {
							done = rec.I + 1
						}
					}
				}
				out.Close()
			}
			if res.Exit == 0 && done == hi-lo {
				os.RemoveAll(dir)
				break
			}
			// worker died or stopped early: culprit is case lo+done
			crashCh <- BatchCrash{Index: lo + done, Result: res}
			os.RemoveAll(dir)
			lo = lo + done + 1 // continue after the culprit
		}
	})
	close(crashCh)
	for c := range crashCh {
		crashes = append(crashes, c)
	}
	return results, crashes
}

// BatchMain is the child side: it reads the cases, and calls fn for each.
func BatchMain(dir string, fn func(i int, raw json.RawMessage) interface{}) int {
	in, err := os.Open(filepath.Join(dir, "in.jsonl"))
	if err != nil {
		fmt.Fprintln(os.Stderr, err)
		return 2
	}
	defer in.Close()
	out, err := os.Create(filepath.Join(dir, "out.jsonl"))
	if err != nil {
		fmt.Fprintln(os.Stderr, err)
		return 2
	}
	defer out.Close()
	prog, _ := os.Create(filepath.Join(dir, "progress"))
	defer prog.Close()
	sc := bufio.NewScanner(in)
	sc.Buffer(make([]byte, 1<<20), 1<<28)
	i := 0
	for sc.Scan() {
		raw := append(json.RawMessage(nil), sc.Bytes()...)
		fmt.Fprintf(prog, "%d\n", i)
		res := fn(i, raw)
		b, err := json.Marshal(map[string]interface{}{"i": i, "r": res})
		if err != nil {
			b, _ = json.Marshal(map[string]interface{}{"i": i, "r": map[string]string{"marshal_error": err.Error()}})
		}
		out.Write(append(b, '\n'))
		i++
	}
	return 0
}
