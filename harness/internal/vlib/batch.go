package vlib

import (
	"bufio"
	"encoding/json"
	"fmt"
	"os"
	"path/filepath"
	"strconv"
	"strings"
	"sync"
	"sync/atomic"
	"time"
)

// Batch protocol: the parent writes the cases of a batch as JSON lines to
// <dir>/in.jsonl and starts `vcheck child <mode> <dir> [args]`. The child
// appends "<index>\n" to <dir>/progress *before* a case is applied and one
// JSON line per finished case to <dir>/out.jsonl. A process-fatal panic in any
// goroutine of the worker (which recover() can never see) therefore still
// leaves the culprit identifiable: an index in progress without a result. If
// several cases were in flight, each suspect is re-run alone.

// BatchCrash describes a worker which died on a case.
type BatchCrash struct {
	// Index of the culprit case within the whole case list, or -1 if the
	// worker died with several cases in flight (see Suspects; each suspect is
	// then re-run alone and reported separately if it dies again).
	Index    int
	Suspects []int
	Result   *Result
}

var batchSeq int64

// BatchOpts tunes RunBatches.
type BatchOpts struct {
	Size     int // cases per child
	Workers  int // children in parallel
	Args     []string
	Env      []string
	Bin      string // default vcheck
	Watchdog time.Duration
}

// RunBatches runs the cases on child processes. results[i] is nil if case i
// produced no result (its worker died on it: see crashes).
func (r *Run) RunBatches(mode string, cases []interface{}, n, workers int, extraArgs []string, env []string) ([]json.RawMessage, []BatchCrash) {
	return r.RunBatchesOpts(mode, cases, BatchOpts{Size: n, Workers: workers, Args: extraArgs, Env: env})
}

// RunBatchesOpts is RunBatches with all options.
func (r *Run) RunBatchesOpts(mode string, cases []interface{}, o BatchOpts) ([]json.RawMessage, []BatchCrash) {
	results := make([]json.RawMessage, len(cases))
	var crashes []BatchCrash
	var cmu sync.Mutex
	if o.Size < 1 {
		o.Size = 1
	}
	if o.Bin == "" {
		bin, ok := r.WorkerBin(mode)
		if !ok {
			r.Inconclusive("worker-unavailable")
			return results, nil
		}
		o.Bin = bin
	}
	if o.Watchdog == 0 {
		o.Watchdog = 30 * time.Minute
	}

	type job struct{ idx []int }
	var queue []job
	for lo := 0; lo < len(cases); lo += o.Size {
		hi := lo + o.Size
		if hi > len(cases) {
			hi = len(cases)
		}
		var idx []int
		for i := lo; i < hi; i++ {
			idx = append(idx, i)
		}
		queue = append(queue, job{idx})
	}
	var qmu sync.Mutex
	pending := len(queue)
	cond := sync.NewCond(&qmu)

	runJob := func(j job) {
		dir := r.Dir(fmt.Sprintf("batch-%s-%d", mode, atomic.AddInt64(&batchSeq, 1)))
		defer os.RemoveAll(dir)
		fd, _ := os.Create(filepath.Join(dir, "in.jsonl"))
		w := bufio.NewWriter(fd)
		for _, i := range j.idx {
			b, _ := json.Marshal(cases[i])
			w.Write(b)
			w.WriteByte('\n')
		}
		w.Flush()
		fd.Close()
		res := RunCmd(Cmd{
			Path:     o.Bin,
			Args:     append([]string{"child", mode, dir}, o.Args...),
			Env:      o.Env,
			Dir:      dir,
			Watchdog: o.Watchdog,
			// a worker is only "hung" if its result/progress files stop growing too
			OutProgress: func() int64 {
				var n int64
				for _, f := range []string{"out.jsonl", "progress"} {
					if st, err := os.Stat(filepath.Join(dir, f)); err == nil {
						n += st.Size()
					}
				}
				return n
			},
		})
		finished := map[int]bool{}
		if out, err := os.Open(filepath.Join(dir, "out.jsonl")); err == nil {
			sc := bufio.NewScanner(out)
			sc.Buffer(make([]byte, 1<<20), 1<<28)
			for sc.Scan() {
				var rec struct {
					I int             `json:"i"`
					R json.RawMessage `json:"r"`
				}
				if json.Unmarshal(sc.Bytes(), &rec) == nil && rec.I >= 0 && rec.I < len(j.idx) {
					results[j.idx[rec.I]] = append(json.RawMessage(nil), rec.R...)
					finished[rec.I] = true
				}
			}
			out.Close()
		}
		if len(finished) == len(j.idx) {
			return
		}
		started := map[int]bool{}
		if pb, err := os.ReadFile(filepath.Join(dir, "progress")); err == nil {
			for _, l := range strings.Split(string(pb), "\n") {
				if v, err := strconv.Atoi(strings.TrimSpace(l)); err == nil {
					started[v] = true
				}
			}
		}
		var suspects, untouched []int
		for k := range j.idx {
			if finished[k] {
				continue
			}
			if started[k] {
				suspects = append(suspects, j.idx[k])
			} else {
				untouched = append(untouched, j.idx[k])
			}
		}
		var more []job
		switch {
		case len(j.idx) == 1:
			cmu.Lock()
			crashes = append(crashes, BatchCrash{Index: j.idx[0], Result: res})
			cmu.Unlock()
		case len(suspects) == 1:
			cmu.Lock()
			crashes = append(crashes, BatchCrash{Index: suspects[0], Result: res})
			cmu.Unlock()
		case len(suspects) == 0 && len(untouched) > 0:
			// died before starting any case (or progress lost): rerun one by one
			for _, i := range untouched {
				more = append(more, job{[]int{i}})
			}
			untouched = nil
		default:
			cmu.Lock()
			crashes = append(crashes, BatchCrash{Index: -1, Suspects: append([]int(nil), suspects...), Result: res})
			cmu.Unlock()
			for _, i := range suspects {
				more = append(more, job{[]int{i}})
			}
		}
		if len(untouched) > 0 {
			more = append(more, job{untouched})
		}
		cmu.Lock()
		tooMany := len(crashes) > 40
		cmu.Unlock()
		if tooMany {
			more = nil // enough witnesses: do not spend time on finer attribution
		}
		if len(more) > 0 {
			qmu.Lock()
			queue = append(queue, more...)
			pending += len(more)
			cond.Broadcast()
			qmu.Unlock()
		}
	}

	var wg sync.WaitGroup
	for w := 0; w < o.Workers; w++ {
		wg.Add(1)
		go func() {
			defer wg.Done()
			for {
				qmu.Lock()
				for len(queue) == 0 && pending > 0 {
					cond.Wait()
				}
				if pending == 0 {
					qmu.Unlock()
					return
				}
				j := queue[0]
				queue = queue[1:]
				qmu.Unlock()
				runJob(j)
				qmu.Lock()
				pending--
				if pending == 0 {
					cond.Broadcast()
				}
				qmu.Unlock()
			}
		}()
	}
	wg.Wait()
	return results, crashes
}

// BatchMain is the child side: it reads the cases and calls fn for each,
// `par` at a time.
func BatchMain(dir string, fn func(i int, raw json.RawMessage) interface{}) int {
	return BatchMainPar(dir, 1, fn)
}

// BatchMainPar runs up to par cases concurrently.
func BatchMainPar(dir string, par int, fn func(i int, raw json.RawMessage) interface{}) int {
	in, err := os.Open(filepath.Join(dir, "in.jsonl"))
	if err != nil {
		fmt.Fprintln(os.Stderr, err)
		return 2
	}
	defer in.Close()
	out, err := os.Create(filepath.Join(dir, "out.jsonl"))
	if err != nil {
		fmt.Fprintln(os.Stderr, err)
		return 2
	}
	defer out.Close()
	prog, _ := os.Create(filepath.Join(dir, "progress"))
	defer prog.Close()
	var raws []json.RawMessage
	sc := bufio.NewScanner(in)
	sc.Buffer(make([]byte, 1<<20), 1<<28)
	for sc.Scan() {
		raws = append(raws, append(json.RawMessage(nil), sc.Bytes()...))
	}
	var mu sync.Mutex
	Parallel(len(raws), par, func(i int) {
		mu.Lock()
		fmt.Fprintf(prog, "%d\n", i)
		mu.Unlock()
		res := fn(i, raws[i])
		b, err := json.Marshal(map[string]interface{}{"i": i, "r": res})
		if err != nil {
			b, _ = json.Marshal(map[string]interface{}{"i": i, "r": map[string]string{"marshal_error": err.Error()}})
		}
		mu.Lock()
		out.Write(append(b, '\n'))
		mu.Unlock()
	})
	return 0
}

// Any returns the culprit index, or the first suspect when the crash could
// not be attributed to a single case.
func (c BatchCrash) Any() int {
	if c.Index >= 0 || len(c.Suspects) == 0 {
		if c.Index < 0 {
			return 0
		}
		return c.Index
	}
	return c.Suspects[0]
}
