package vlib

import (
	"bufio"
	"fmt"
	"os"
	"os/exec"
	"path/filepath"
	"regexp"
	"sort"
	"strings"
)

// Race detector as a secondary monitor: the workload of a property is run
// once more against -race builds of the dtail binaries and of the in-process
// servers; report blocks are collected from the GORACE log files (exit codes
// are not trusted), deduplicated by the unordered pair of the innermost
// mimecast/dtail frames of the two accesses (line numbers stripped) and
// compared with the committed baseline of reports the unchanged tree produces.
// A new report one of whose stacks touches the state implementing the property
// (watch list) is a violation: a guarantee "for every schedule" whose
// synchronisation is gone does not hold for every schedule.

// RaceReport is one deduplicated report.
type RaceReport struct {
	Sig    string
	Frames []string // all dtail frames of both stacks
	Text   string
	Count  int
}

var frameRe = regexp.MustCompile(`^\s+(github\.com/mimecast/dtail/\S+?)\(\)\s*$`)

// ParseRaceLogs reads every file prefix.* and returns deduplicated reports.
func ParseRaceLogs(prefix string) []*RaceReport {
	files, _ := filepath.Glob(prefix + ".*")
	bySig := map[string]*RaceReport{}
	for _, f := range files {
		fd, err := os.Open(f)
		if err != nil {
			continue
		}
		sc := bufio.NewScanner(fd)
		sc.Buffer(make([]byte, 1<<20), 1<<26)
		var block []string
		flush := func() {
			if len(block) == 0 {
				return
			}
			// split into stacks: a stack starts at a line ending with ":" that names an access or goroutine creation
			var stacks [][]string
			var cur []string
			section := ""
			for _, l := range block {
				t := strings.TrimSpace(l)
				if strings.HasSuffix(t, ":") && !strings.HasPrefix(l, "      ") {
					if len(cur) > 0 && (strings.HasPrefix(section, "Write") || strings.HasPrefix(section, "Read") ||
						strings.HasPrefix(section, "Previous")) {
						stacks = append(stacks, cur)
					}
					cur = nil
					section = t
					continue
				}
				if m := frameRe.FindStringSubmatch(l); m != nil {
					fn := m[1]
					if !strings.Contains(fn, "/verifharness/") {
						cur = append(cur, fn)
					}
				}
			}
			if len(cur) > 0 && (strings.HasPrefix(section, "Write") || strings.HasPrefix(section, "Read") || strings.HasPrefix(section, "Previous")) {
				stacks = append(stacks, cur)
			}
			var inner []string
			var all []string
			for _, st := range stacks {
				if len(st) > 0 {
					inner = append(inner, st[0])
				}
				all = append(all, st...)
			}
			if len(inner) == 0 {
				block = nil
				return
			}
			sort.Strings(inner)
			sig := strings.Join(inner, " <-> ")
			rep := bySig[sig]
			if rep == nil {
				rep = &RaceReport{Sig: sig, Frames: all, Text: Trunc(strings.Join(block, "\n"), 3000)}
				bySig[sig] = rep
			}
			rep.Count++
			block = nil
		}
		in := false
		for sc.Scan() {
			l := sc.Text()
			if strings.HasPrefix(l, "WARNING: DATA RACE") {
				flush()
				in = true
				block = []string{l}
				continue
			}
			if strings.HasPrefix(l, "==================") {
				if in && len(block) > 0 {
					flush()
					in = false
				}
				continue
			}
			if in {
				block = append(block, l)
			}
		}
		flush()
		fd.Close()
	}
	var out []*RaceReport
	for _, r := range bySig {
		out = append(out, r)
	}
	sort.Slice(out, func(i, j int) bool { return out[i].Sig < out[j].Sig })
	return out
}

func loadRaceBaseline() map[string]bool {
	m := map[string]bool{}
	b, err := os.ReadFile(filepath.Join(VerifDir, "race_baseline.txt"))
	if err != nil {
		return m
	}
	for _, l := range strings.Split(string(b), "\n") {
		l = strings.TrimSpace(l)
		if l != "" && !strings.HasPrefix(l, "#") {
			m[l] = true
		}
	}
	return m
}

// RacePass runs workload once more against the -race builds and judges the
// reports. watch: substrings of function names implementing the property.
func (r *Run) RacePass(watch []string, workload func()) {
	if r.Race || os.Getenv("VERIF_NO_RACE") != "" {
		return
	}
	cmd := exec.Command(filepath.Join(VerifDir, "scripts", "build.sh"), "race")
	if out, err := cmd.CombinedOutput(); err != nil {
		fmt.Printf("race build failed (race pass skipped): %v\n%s\n", err, Trunc(string(out), 1500))
		r.Count("race_pass_skipped_build_failed", 1)
		return
	}
	r.RaceDir = r.Dir("race")
	prefix := filepath.Join(r.RaceDir, "report")
	r.Race = true
	ExtraEnv = []string{"GORACE=halt_on_error=0 exitcode=0 log_path=" + prefix}
	workload()
	r.Race = false
	ExtraEnv = nil
	reports := ParseRaceLogs(prefix)
	base := loadRaceBaseline()
	r.Count("race_reports_distinct", len(reports))
	var sigs []string
	for _, rep := range reports {
		sigs = append(sigs, fmt.Sprintf("%s x%d", rep.Sig, rep.Count))
		if base[rep.Sig] {
			r.Count("race_reports_in_baseline", 1)
			continue
		}
		touches := ""
		for _, f := range rep.Frames {
			for _, w := range watch {
				if strings.Contains(f, w) {
					touches = w
				}
			}
		}
		if touches != "" {
			r.Violation("data-race-on-property-state", map[string]interface{}{"signature": rep.Sig, "touches": touches, "occurrences": rep.Count, "report": rep.Text})
		} else {
			r.Count("race_reports_new_but_unrelated", 1)
			fmt.Printf("RACE-OBSERVATION property=%s new report outside the watch list: %s\n", r.Property, rep.Sig)
		}
	}
	r.Extra("race_pass", map[string]interface{}{"signatures": sigs, "watch_list": watch})
}
