module github.com/mimecast/dtail/verifharness

go 1.20

require (
	github.com/DataDog/zstd v1.5.6
	github.com/anishathalye/porcupine v1.3.0
	github.com/mimecast/dtail v0.0.0
	golang.org/x/crypto v0.26.0
)

require (
	golang.org/x/sys v0.23.0 // indirect
	golang.org/x/term v0.23.0 // indirect
)

replace github.com/mimecast/dtail => /repo
