// vcheck is the single binary of the verification harness: property drivers
// and the child modes they spawn.
package main

import (
	"encoding/json"
	"flag"
	"fmt"
	"os"
	"strconv"

	"github.com/mimecast/dtail/verifharness/internal/props"
	"github.com/mimecast/dtail/verifharness/internal/vlib"
)

func main() {
	if len(os.Args) > 1 && os.Args[1] == "child" {
		child(os.Args[2:])
		return
	}
	property := flag.String("property", "", "property id, e.g. C01")
	tier := flag.String("tier", "quick", "quick|thorough")
	seed := flag.Int64("seed", 1, "seed")
	replay := flag.String("replay", "", "replay file")
	flag.Parse()
	if s := os.Getenv("VERIF_SEED"); s != "" && !isFlagSet("seed") {
		if v, err := strconv.ParseInt(s, 10, 64); err == nil {
			*seed = v
		}
	}
	if *replay != "" {
		// Case lists are a pure function of (seed, tier): a replay re-runs the
		// recorded tier and seed (drivers with a finer replay use the file too).
		if b, err := os.ReadFile(*replay); err == nil {
			var rec struct {
				Tier string `json:"tier"`
				Seed int64  `json:"seed"`
			}
			if json.Unmarshal(b, &rec) == nil && rec.Tier != "" {
				*tier, *seed = rec.Tier, rec.Seed
			}
		}
	}
	fn, ok := props.Drivers[*property]
	if !ok {
		fmt.Fprintln(os.Stderr, "unknown property", *property)
		os.Exit(2)
	}
	r := vlib.NewRun(*property, *tier, *seed, *replay)
	min := fn(r)
	status := r.Finish(min)
	r.Cleanup()
	os.Exit(status)
}

func isFlagSet(name string) bool {
	set := false
	flag.Visit(func(f *flag.Flag) {
		if f.Name == name {
			set = true
		}
	})
	return set
}

// serverChild is set by the server worker build (tag w_server).
var serverChild func(args []string)

func child(args []string) {
	if len(args) == 0 {
		os.Exit(2)
	}
	coverFlusher()
	if args[0] == "server" {
		if serverChild == nil {
			fmt.Fprintln(os.Stderr, "this binary was built without the server worker")
			os.Exit(2)
		}
		serverChild(args[1:])
		return
	}
	fn, ok := props.Children[args[0]]
	if !ok {
		fmt.Fprintln(os.Stderr, "unknown child mode (worker not built into this binary):", args[0])
		os.Exit(2)
	}
	os.Exit(fn(args[1:]))
}
