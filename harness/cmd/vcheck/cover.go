package main

import (
	"os"
	"runtime/coverage"
	"time"
)

// coverFlusher: only for scripts/coverage.sh (binaries built with -cover and GOCOVERDIR set). Children are
// usually killed, which loses the counters written at a normal exit; so they are written out periodically.
// Without -cover the calls return an error and nothing happens.
func coverFlusher() {
	dir := os.Getenv("GOCOVERDIR")
	if dir == "" {
		return
	}
	if coverage.WriteMetaDir(dir) != nil {
		return
	}
	go func() {
		for {
			time.Sleep(1500 * time.Millisecond)
			coverage.WriteCountersDir(dir)
		}
	}()
}
