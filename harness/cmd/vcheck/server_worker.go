//go:build w_server

package main

import (
	"flag"

	"github.com/mimecast/dtail/verifharness/internal/dt"
)

func init() {
	serverChild = func(args []string) {
		fs := flag.NewFlagSet("server", flag.ExitOnError)
		cfg := fs.String("cfg", "none", "")
		port := fs.Int("port", 2222, "")
		lvl := fs.String("logLevel", "info", "")
		logger := fs.String("logger", "stdout", "")
		fs.Parse(args)
		dt.ServerMain(*cfg, *port, *lvl, *logger)
	}
}
