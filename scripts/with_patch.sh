#!/bin/bash
# with_patch.sh <patch.diff> <command...> : apply a seeded change to /repo, run the command, always undo.
p="$1"; shift
if [ -n "$(git -C /repo status --short | grep -v '^??')" ]; then echo "/repo is dirty"; exit 9; fi
trap 'git -C /repo checkout -- . ' EXIT INT TERM
git -C /repo apply "$p" || { echo "patch does not apply"; exit 9; }
"$@"; rc=$?
exit $rc
