#!/bin/bash
# sweep.sh <tier> <seeds...> : run every check at the given tier and seeds, one after the other; print one line per run.
tier="$1"; shift
for seed in "$@"; do
  for id in C01 C02 C03 C04 C05 C06 C07 C08 C09 C10 C11 C12 C13 C14 C15 C16 C17 C18; do
    start=$(date +%s)
    VERIF_SEED=$seed ./check $id $tier > sweep-$id-$tier-$seed.log 2>&1; rc=$?
    echo "$id $tier seed=$seed exit=$rc $(( $(date +%s) - start ))s $(grep -c '^VIOLATION' sweep-$id-$tier-$seed.log) violations | $(grep "^$id $tier" sweep-$id-$tier-$seed.log | cut -c1-160)"
  done
done
