#!/bin/bash
# regress_seeds.sh [jobs] [pattern] : run every stored seeded change against its property's quick check in an isolated
# worktree (scripts/eval_isolated.sh) and print one line per seed. A seed counts as detected if the check exits 1 with
# at least one VIOLATION line.
cd "$(dirname "$0")/.." || exit 2
jobs="${1:-4}"; pat="${2:-}"
export EVAL_OUT="${EVAL_OUT:-/tmp/regress}"; mkdir -p "$EVAL_OUT"
one() { d="$1"; id=$(basename "$d"); prop=${id%%-*}; ./scripts/eval_isolated.sh "$id" "$d/patch.diff" "$prop" quick 2>&1 | grep '^EVAL' ; }
export -f one
ls -d seeded/*${pat}*/ | sed 's#/$##' | xargs -P "$jobs" -I{} bash -c 'one {}'
