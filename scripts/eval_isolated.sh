#!/bin/bash
# eval_isolated.sh <name> <patch.diff> <Cxx> [tier] : run a check against a scratch worktree of /repo that carries a
# seeded change, using a private copy of /verif. Neither /repo nor /verif is touched, so several evaluations and the
# regular sweeps can run side by side. Prints the check's exit status and its VIOLATION kinds.
set -u
name="$1"; patch="$(readlink -f "$2")"; prop="$3"; tier="${4:-quick}"
base="/tmp/ev/$name"; wt="$base/repo"; vd="$base/verif"
git -C /repo worktree remove --force "$wt" 2>/dev/null; rm -rf "$base"; mkdir -p "$base"
trap 'git -C /repo worktree remove --force "$wt" 2>/dev/null; rm -rf "$base"' EXIT
git -C /repo worktree add -q --detach "$wt" HEAD || exit 9
git -C "$wt" apply "$patch" || git -C "$wt" apply --3way "$patch" || { echo "patch does not apply"; exit 9; }
# the committed state of /verif (not the working tree, which may be mid-edit)
mkdir -p "$vd"; git -C /verif archive HEAD -- . ':!seeded' ':!evidence' | tar -x -C "$vd"
mkdir -p "$vd/evidence" "$vd/replay"
out="${EVAL_OUT:-/tmp/evout}/$name"; mkdir -p "$out"
VERIF_REPO="$wt" VERIF_DIR="$vd" timeout 3600 "$vd/check" "$prop" "$tier" > "$out/check.log" 2>&1
rc=$?
cp "$vd/evidence/$prop.json" "$out/" 2>/dev/null
mkdir -p "$out/replay"; cp -r "$vd/replay/$prop/." "$out/replay/" 2>/dev/null
echo "EVAL $name $prop $tier exit=$rc violations=$(grep -c '^VIOLATION' "$out/check.log") known=$(grep -c '^KNOWN-FINDING' "$out/check.log")"
grep -o 'kind=[^ ]*' "$out/check.log" | sort | uniq -c | head -12
exit 0
