#!/bin/bash
# Builds /repo (current working tree, -tags verif) and the harness into /verif/.build/bin.
#   dcat dgrep dmap dtail dtailhealth : the subject's binaries
#   vcheck                            : drivers (no dependency on dtail's internal packages)
#   vcheck-w-<name>                   : one worker per group of in-process tiers (build tag w_<name>); a worker
#                                       that does not compile against the current tree is left out (its tier is
#                                       skipped by the drivers) instead of failing the whole build
# "race" as first argument additionally builds -race variants (suffix -race).
set -u
VERIF_DIR="$(cd "$(dirname "$0")/.." && pwd)"
export GOFLAGS=-mod=mod GOPROXY=off GOSUMDB=off GOTOOLCHAIN=local
export PATH="$PATH:/usr/local/go/bin"
BIN="$VERIF_DIR/.build/bin"
mkdir -p "$BIN"
# VERIF_REPO: evaluate another tree than /repo (used only by scripts/eval_isolated.sh to run a check against a
# scratch worktree that carries a seeded change, so that /repo itself is never touched by an evaluation).
REPO="${VERIF_REPO:-/repo}"
MODFILE=()
# VERIF_GOBUILD_EXTRA: extra go build flags (scripts/coverage.sh passes -cover -coverpkg=... for the workload survey)
EXTRA=(${VERIF_GOBUILD_EXTRA:-})
exec 9>"$VERIF_DIR/.build/lock"
flock 9
cp "$REPO/go.sum" "$VERIF_DIR/harness/go.sum.repo" 2>/dev/null
cat "$VERIF_DIR/harness/go.sum.repo" "$VERIF_DIR/harness/go.sum.extra" 2>/dev/null | sort -u > "$VERIF_DIR/harness/go.sum"
rm -f "$VERIF_DIR/harness/go.sum.repo"
if [ "$REPO" != /repo ]; then
  sed "s#=> /repo\$#=> $REPO#" "$VERIF_DIR/harness/go.mod" > "$VERIF_DIR/.build/harness.mod"
  cp "$VERIF_DIR/harness/go.sum" "$VERIF_DIR/.build/harness.sum"
  MODFILE=(-modfile="$VERIF_DIR/.build/harness.mod")
fi
for c in dcat dgrep dmap dtail dtailhealth; do
  (cd "$REPO" && go build "${EXTRA[@]}" -tags verif -o "$BIN/$c" "./cmd/$c") || exit 1
done
(cd "$VERIF_DIR/harness" && go build "${MODFILE[@]}" -tags verif -o "$BIN/vcheck" ./cmd/vcheck) || exit 1
WORKERS="server c03 c04 mapr c08 c10 c16 c18"
for w in $WORKERS; do
  if ! (cd "$VERIF_DIR/harness" && go build "${MODFILE[@]}" "${EXTRA[@]}" -tags "verif w_$w" -o "$BIN/vcheck-w-$w" ./cmd/vcheck) 2>"$BIN/vcheck-w-$w.builderr"; then
    echo "WARNING: worker $w does not build against the current tree (its in-process tier will be skipped):"
    head -5 "$BIN/vcheck-w-$w.builderr"
    rm -f "$BIN/vcheck-w-$w"
  else
    rm -f "$BIN/vcheck-w-$w.builderr"
  fi
done
if [ "${1:-}" = "race" ]; then
  for c in dcat dgrep dmap dtail; do
    (cd "$REPO" && go build -tags verif -race -o "$BIN/$c-race" "./cmd/$c") || exit 1
  done
  for w in server mapr; do
    (cd "$VERIF_DIR/harness" && go build "${MODFILE[@]}" -tags "verif w_$w" -race -o "$BIN/vcheck-w-$w-race" ./cmd/vcheck) 2>/dev/null || rm -f "$BIN/vcheck-w-$w-race"
  done
fi
exit 0
