#!/bin/bash
# Builds /repo (current working tree, -tags verif) and the harness into /verif/.build/bin.
# "race" as first argument additionally builds -race variants (suffix -race).
set -u
VERIF_DIR="$(cd "$(dirname "$0")/.." && pwd)"
export GOFLAGS=-mod=mod GOPROXY=off GOSUMDB=off GOTOOLCHAIN=local
export PATH="$PATH:/usr/local/go/bin"
BIN="$VERIF_DIR/.build/bin"
mkdir -p "$BIN"
exec 9>"$VERIF_DIR/.build/lock"
flock 9
cp /repo/go.sum "$VERIF_DIR/harness/go.sum.repo" 2>/dev/null
# harness go.sum = repo's go.sum + harness-only modules (porcupine)
cat "$VERIF_DIR/harness/go.sum.repo" "$VERIF_DIR/harness/go.sum.extra" 2>/dev/null | sort -u > "$VERIF_DIR/harness/go.sum"
rm -f "$VERIF_DIR/harness/go.sum.repo"
build() { # dir out pkg [extra flags]
  local dir="$1" out="$2" pkg="$3"; shift 3
  (cd "$dir" && go build -tags verif "$@" -o "$out" "$pkg") || exit 1
}
for c in dcat dgrep dmap dtail dtailhealth; do
  build /repo "$BIN/$c" "./cmd/$c" || exit 1
done
build "$VERIF_DIR/harness" "$BIN/vcheck" ./cmd/vcheck || exit 1
if [ "${1:-}" = "race" ]; then
  for c in dcat dgrep dmap dtail; do
    build /repo "$BIN/$c-race" "./cmd/$c" -race || exit 1
  done
  build "$VERIF_DIR/harness" "$BIN/vcheck-race" ./cmd/vcheck -race || exit 1
fi
exit 0
