#!/bin/bash
# sweep_par.sh <tier> <seed> <jobs> : all checks at one seed, <jobs> of them at a time (robustness against
# machine load: every check must stay silent on the unchanged tree while others run beside it).
cd "$(dirname "$0")/.." || exit 2
tier="${1:-quick}"; seed="${2:-1}"; jobs="${3:-6}"
./scripts/build.sh >/dev/null 2>&1 || { echo "BUILD FAILED"; exit 2; }
mkdir -p .build/sweep
run1() { p="$1"; s=$(date +%s); VERIF_SEED=$seed ./check "$p" "$tier" > ".build/sweep/par-$p-$tier-$seed.log" 2>&1; rc=$?
  echo "$p $tier seed=$seed exit=$rc $(( $(date +%s)-s ))s $(grep -c '^VIOLATION' .build/sweep/par-$p-$tier-$seed.log) violations | $(grep "^$p $tier" .build/sweep/par-$p-$tier-$seed.log | cut -c1-220)"; }
export -f run1; export tier seed
printf 'C%02d\n' $(seq 1 18) | xargs -P "$jobs" -I{} bash -c 'run1 {}'
