#!/usr/local/bin/python3-vt
import jsonschema
# Validates MANIFEST.json and every evidence file against the schemas.
import json,sys,glob,os
ok=True
def val(path,schema):
    global ok
    try:
        jsonschema.validate(json.load(open(path)),json.load(open(schema)))
        print('valid  ',path)
    except Exception as e:
        ok=False; print('INVALID',path,str(e)[:300])
val('/verif/MANIFEST.json','/root/.vp/MANIFEST.schema.json') if os.path.exists('/verif/MANIFEST.json') else None
for f in sorted(glob.glob('/verif/evidence/*.json')):
    val(f,'/root/.vp/EVIDENCE.schema.json')
sys.exit(0 if ok else 1)
