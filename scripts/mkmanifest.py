#!/usr/bin/env python3
# Generates /verif/MANIFEST.json from the table below (single source of truth).
import json,subprocess
hook_commits=subprocess.run("git -C /repo log --format=%H --grep='^verif hooks' ",shell=True,capture_output=True,text=True).stdout.split()
T="runtime monitoring: "
checks={
 # id: (category, technique, level text, level note, design_ref)
}
def add(id,cat,tech,text,note,ref):
    checks[id]=(cat,tech,text,note,ref)
exec(open('/verif/scripts/manifest_table.py').read())
props=[json.loads(l) for l in open('/verif/properties.jsonl')]
na_reasons=json.load(open('/verif/scripts/not_applicable.json'))
m={
 "version":1,
 "setup_cmd":"./scripts/build.sh",
 "hooks":{
  "guard":"verif (Go build tag)",
  "enable":"go build -tags verif (scripts/build.sh builds /repo/cmd/* and the harness with it on every check)",
  "baseline_off_cmd":"./scripts/baseline.sh",
  "source_commits":hook_commits,
  "add_only":True
 },
 "engines":[{"name":"vcheck","path":"harness/cmd/vcheck","serves_properties":sorted(checks),
   "kind_free_text":"Go harness: seeded workload generators, child-process runners for the real dtail binaries and in-process servers, oracles over observed executions (stdout, exit status, /proc, server logs, hook traces, strace), evidence writer"}],
 "checks":[],
 "notes":"All checks: ./check <id> <tier>; VERIF_SEED selects the seed. Exit 0 held/known findings only, 1 violation, 2 build failure, 3 inconclusive. Known findings: KNOWN_FINDINGS.txt.",
 "not_applicable":[]
}
for p in props:
    id=p['id']
    if id in checks:
        cat,tech,text,note,ref=checks[id]
        m["checks"].append({
          "property_id":id,
          "quick_cmd":f"./check {id} quick",
          "thorough_cmd":f"./check {id} thorough",
          "evidence_file":f"/verif/evidence/{id}.json",
          "replay_cmd_template":f"./check {id} quick --replay {{path}}",
          "engine":"vcheck",
          "level_claimed":{"category":cat,"text":text,"design_ref":ref},
          "level_note":note,
          "technique":tech})
    else:
        m["not_applicable"].append({"property_id":id,"reason":na_reasons.get(id,"check not built yet in this round (runtime monitoring applies; see DESIGN.md)")})
json.dump(m,open('/verif/MANIFEST.json','w'),indent=1)
print("claimed:",sorted(checks),"not claimed:",[x['property_id'] for x in m['not_applicable']])
