#!/bin/bash
# Runs the repository's pinned baseline (31 tests) with the verif guard OFF and
# checks that every stable_pass test of /root/.vp/BASELINE.json passes.
export GOFLAGS=-mod=mod GOPROXY=off GOSUMDB=off GOTOOLCHAIN=local
cd /repo || exit 2
out=$(mktemp)
go test -mod=mod -json -vet=off -count=1 -timeout 25m ./... > "$out" 2>&1
python3 - "$out" <<'PY'
import json,sys
want=set(json.load(open('/root/.vp/BASELINE.json'))['stable_pass'])
got={}
for l in open(sys.argv[1]):
    try: e=json.loads(l)
    except Exception: continue
    if e.get('Test') and e.get('Action') in('pass','fail','skip'):
        got[e['Package']+'::'+e['Test']]=e['Action']
bad=[t for t in sorted(want) if got.get(t)!='pass']
print(f"baseline: {len(want)-len(bad)}/{len(want)} pass")
for t in bad: print("NOT PASS:",t,got.get(t))
sys.exit(1 if bad else 0)
PY
rc=$?
rm -f "$out"
exit $rc
