#!/bin/bash
# verify_seed.sh <Cxx> <patch.diff> <demo_dir> : confirm a seeded change in a scratch worktree:
# applies, builds (with and without hooks), existing suite passes, demo fails with it and passes without.
export GOFLAGS=-mod=mod GOPROXY=off GOSUMDB=off GOTOOLCHAIN=local
id="$1"; patch="$2"; demo="$3"
wt="/tmp/seed/$id"
git -C /repo worktree remove --force "$wt" 2>/dev/null
git -C /repo worktree add -q --detach "$wt" HEAD || exit 9
trap 'git -C /repo worktree remove --force "$wt" 2>/dev/null' EXIT
cd "$wt"
run_demo() { ( cd "$demo" && TREE="$wt" WORKTREE="$wt" timeout 900 bash ./run.sh "$wt" >"/tmp/seed/$id.demo.$1.log" 2>&1 ); echo $?; }
without=$(run_demo without)
git apply "$patch" || { echo "$id: PATCH DOES NOT APPLY"; exit 1; }
b1=$( (go build ./... && go build -tags verif ./...) >/dev/null 2>&1; echo $?)
t=$(go test -mod=mod -vet=off -count=1 ./... >/tmp/seed/$id.tests.log 2>&1; echo $?)
with=$(run_demo with)
echo "$id: build=$b1 tests=$t demo_without=$without demo_with=$with"
[ "$b1" = 0 ] && [ "$t" = 0 ] && [ "$without" = 0 ] && [ "$with" != 0 ]
