#!/bin/bash
# coverage.sh [tier] [seed] : workload survey, not a check. Builds the dtail binaries and the in-process workers with
# Go's coverage instrumentation (-cover -coverpkg=github.com/mimecast/dtail/...) in a private copy of /verif, runs all
# 18 checks, and lists which statements of mimecast/dtail's non-test code no check executed. Tells where the workloads
# do not reach (a check cannot notice a change in code it never runs). Output: /tmp/cov/func.txt, /tmp/cov/uncovered.txt
set -u
tier="${1:-quick}"; seed="${2:-1}"
export GOFLAGS=-mod=mod GOPROXY=off GOSUMDB=off GOTOOLCHAIN=local
base=/tmp/cov; rm -rf "$base"; mkdir -p "$base/data" "$base/logs"
rsync -a --exclude .build --exclude .git --exclude replay --exclude evidence --exclude seeded /verif/ "$base/verif/"
mkdir -p "$base/verif/evidence" "$base/verif/replay"
export VERIF_GOBUILD_EXTRA="-cover -covermode=atomic -coverpkg=github.com/mimecast/dtail/..."
export GOCOVERDIR="$base/data" VERIF_DIR="$base/verif" VERIF_SEED="$seed"
"$base/verif/scripts/build.sh" || exit 2
printf 'C%02d\n' $(seq 1 18) | xargs -P 5 -I{} bash -c '"$VERIF_DIR/check" {} '"$tier"' > '"$base"'/logs/{}.log 2>&1; echo "{} exit=$?"'
go tool covdata textfmt -i="$base/data" -o "$base/cov.txt" || exit 2
grep -v verifharness "$base/cov.txt" > "$base/cov.dtail.txt"; (cd /repo && go tool cover -func="$base/cov.dtail.txt" > "$base/func.txt")
# uncovered blocks of non-test, non-vhook code
awk -F'[: ,]' 'NR>1 && $NF==0 {print $1":"$2}' "$base/cov.txt" | grep -v 'vhook\|verifharness' | sort -t: -k1,1 -k2,2n | uniq > "$base/uncovered.txt"
tail -1 "$base/func.txt"; wc -l "$base/uncovered.txt"
rm -rf "$base/verif/.build"
