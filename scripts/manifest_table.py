add("C18","exploration",
 "runtime monitoring: seeded list generator + oracle over the discovery API's output in worker processes; real dcat against fake SSH servers counting connections per port; reconnect tier: dtail against fake servers that drop every connection, monitors over their connection log; more long-lived servers than the connection throttle admits at a time; lists in which most servers are down",
 "Held on the generated lists (sizes 0..5000, all duplicate layouts, comma/file/plug-in+regex) and on the e2e runs listed in the evidence; nothing is claimed for list shapes outside the generator.",
 "Trusted: Go regexp, sort; assumes blank entries are out of scope; the /regex/ filter is reached through a verif-tagged plug-in module.",
 "DESIGN.md §2 C18")
add("C11","exploration",
 "runtime monitoring: seeded grammar-based query generator; oracle A over the parsed query's exported fields, oracle B over the CSV produced by running the parsed query through the real aggregation pipeline against an independent reference evaluator; malformed classes must error; every text is also submitted twice to the server-side entry point and must get the parser's verdict both times; mutants run in crash-isolated worker processes",
 "Held on the generated valid queries (all clause orders, keyword cases, separator styles, back-quoted and quoted operands), the 28 malformed classes and the mutants/prefixes listed in the evidence; not a proof about the whole grammar.",
 "Trusted: the harness' query model and reference evaluator (internal/mq), Go regexp/strconv; lower-case operator/function names only.",
 "DESIGN.md §2 C11")
add("C05","exploration",
 "runtime monitoring: seeded table/query/partition generator; the real server aggregator, wire messages and client merge run in worker processes (forced partial transmissions) and as real dmap over SSH against several servers (one or several files per server, results of a few and of thousands of groups); a slow-client tier leaves a transmission of hundreds of groups in flight at the end of input; a wire tier re-issues the real server messages of a small table through the real serializer with counts and sums scaled to millions and billions and lets the real client side merge them; oracle = independent reference evaluator + central-vs-partitioned comparison of the observed CSV results",
 "Held on the generated (table, query, partition) triples and e2e runs counted in the evidence; partitions up to 4 servers x 3 files x 2 forced transmissions per file in-process, up to 5 servers e2e.",
 "Trusted: reference evaluator (internal/mq) written from the documentation, Go strconv; avg over non-numeric lines compared between runs only; e2e uses one file per server or several files behind one glob (comma lists are subject to the recorded command race c06.cmd-race; csv tables one file per server because the first line seen is the header).",
 "DESIGN.md §2 C05")
add("C03","exploration",
 "runtime monitoring: exhaustive enumeration of selection vectors x context parameters through the real cat reader in worker processes, seeded regex/file generator, and real dgrep --plain runs (serverless + SSH, incl. pairs re-using a pattern with the opposite flag on one server); oracle = 25-line reference model of grep context semantics + Go regexp on the bare line",
 "Exhaustive up to the line bound stated in the evidence (all selection vectors x before/after/max in {0,1,2,3,5,n+1} x invert x final newline), sampled beyond it (files to 5000 lines, generated RE2 patterns, e2e).",
 "Trusted: Go regexp, the reference model; no-op patterns select every line with and without --invert.",
 "DESIGN.md §2 C03")
add("C01","exploration",
 "runtime monitoring: seeded byte-class content generator; real dcat binary (serverless and over SSH against in-process servers, plain and REMOTE-record mode, gzip/zstd containers, three MaxLineLength values; consumers that stall at the start or when only the tail of the file is outstanding; reads queued behind a cat limit of 1; files with unusual names); oracle = byte equality of stdout with the content after the only permitted transformation; deviations are classified against narrow known-finding predictors",
 "Held on the generated files counted in the evidence (byte classes x containers x M x transport cells); files up to 2 MiB (thorough).",
 "Trusted: compress/gzip, DataDog/zstd writer for test inputs; clients must run with --logLevel error; known findings c01.* are recognised by exact prediction only.",
 "DESIGN.md §2 C01")
add("C12","exploration",
 "runtime monitoring: seeded generator of patterns/options containing the wire format's own delimiters; real dgrep end to end through encoder and server-side decoder (serverless, sample over SSH; overlapping sessions with opposite flags; multi-command sessions whose options must apply to every command; a real client's request bytes captured and replayed to the server in arbitrary pieces; patterns of 2-60 KB; tall files with context/max values of the same order); oracle = lines selected by the user's pattern compiled with Go regexp in the harness + context model, and the output mode",
 "Held on the generated (pattern, flags, options, mode) combinations counted in the evidence.",
 "Trusted: Go regexp; C03's reference context model; patterns without NUL/0xAC.",
 "DESIGN.md §2 C12")
add("C16","exploration",
 "runtime monitoring: seeded message/stream generator; Colorfy (alone and from 12 goroutines at once) and the real client handlers run in crash-isolated child processes (coloured vs uncoloured stdout compared after stripping SGR sequences; uncoloured output compared with the message sequence); harness-controlled SSH servers play the streams to the real dcat/dmap/dtailhealth binaries (one server, six at once with client log lines in between, dmap against four servers delivering the same 20000 groups at once)",
 "Held on the generated messages and streams counted in the evidence.",
 "Trusted: the SGR-strip regexp; both sides are stripped when the message itself contains ESC.",
 "DESIGN.md §2 C16")
add("C08","exploration",
 "runtime monitoring: seeded filesystem-layout/rule/request generator (per-user, default, empty and other users' rule lists; every symlink re-pointed between two sessions of one server process; a restricted user grepping while another user reads denied files on the same server: no foreign line may reach him; requests with '..' behind directory links, judged by what is served); HasFilePermission verdicts observed in worker processes on real directory trees, and real dcat sessions over SSH against servers configured with the rules (unique content token per file); oracle = independent statement of the rule semantics on the EvalSymlinks+Abs path",
 "Held on the generated (tree, rules, request) triples counted in the evidence; both directions (allowed served, denied discloses nothing).",
 "Trusted: filepath.EvalSymlinks/Abs/Glob, Go regexp; static layouts (no TOCTOU claim).",
 "DESIGN.md §2 C08")
add("C09","exploration",
 "runtime monitoring: seeded authorized_keys/credential generator (incl. lines of 4-13 KB; servers with the test-mode switch spelled off); real SSH handshakes (x/crypto/ssh client in the harness, chosen source addresses incl. ::1; key comments that look like parts of a key line) against in-process dtail servers (one bound to 127.0.0.1, one to all addresses with unresolvable allow-list entries) whose key files are rewritten between attempts; oracle = the statement's acceptance rule; health sessions are fed commands and their byte stream is scanned for file content",
 "Held on the generated key files (incl. multi-revision sequences with preserved/older mtime), the full password x user x source address grid, and the health sessions counted in the evidence.",
 "Trusted: x/crypto/ssh (shared by harness and subject); CRLF and junk lines are outside 'well-formed'.",
 "DESIGN.md §2 C09")
add("C14","exploration",
 "runtime monitoring: seeded operation histories driven by a harness SSH/TCP client against in-process dtail servers; oracles at quiescent points (probe acceptance, STATS log values vs a sequential model), exact served counts for simultaneous bursts, a server short of file descriptors for a while (RLIMIT_NOFILE lowered from outside), and porcupine linearizability checking of recorded concurrent connect/close histories against a sequential counter",
 "Held on the operation histories, bursts and porcupine-checked concurrent phases counted in the evidence (MaxConnections 1, 3, 5).",
 "Trusted: x/crypto/ssh, porcupine v1.3.0; 'served' = answers a global request after authentication; client-side closes may linearize any time after their call.",
 "DESIGN.md §2 C14")
add("C10","exploration",
 "runtime monitoring: grammar-aware hostile-input generator; inputs are applied to fresh real ServerHandlers in crash-isolated worker processes (input logged before application; each process starts cold with simultaneous many-file requests under a 10-rule permission list; mapreduce sessions over compressed files whose stream breaks and with every log format name of the parser factory; context options up to 2^63-1; sessions over 150000 groups lasting several report intervals) and sent over SSH to a real server while a canary session of another user and health logins observe liveness; oracle = process survival, canary stream intact, health answers OK",
 "Held on the hostile inputs counted in the evidence (command x argument count x fault-class cells); no behavioural expectation beyond survival and an error/close for the offender.",
 "Trusted: the harness SSH client; crash attribution names the culprit and its five predecessors.",
 "DESIGN.md §2 C10")
add("C13","exploration",
 "runtime monitoring: seeded session histories (open/drain/cancel-while-running/cancel-while-waiting/bursts/bursts of sessions hanging up right after their command) driven by a harness SSH client against in-process servers, files that vanish while their read is queued and come back; sessions with three commands cut off; plus the server's own continuous and scheduled jobs and serverless clients (files open in the client process); hook-free observation of the files the server process holds open (/proc/<pid>/fd sampled every 5 ms and at quiescent points) plus an online monitor over the limiter hook trace (acquisitions - releases within [0, limit], every release preceded by its acquisition)",
 "Held on the histories counted in the evidence (cat limit 1-3, tail limit 1-2, two users); cancellations while waiting actually achieved are counted.",
 "Trusted: /proc fd view; a blocked cat reader keeps its file open; hook call sites srv.lim.* (the /proc observation decides, the trace cross-checks).",
 "DESIGN.md §2 C13")
add("C02","exploration",
 "runtime monitoring: real dcat/dgrep (serverless and over SSH) with a harness-owned, size-limited stdout pipe read by seeded pacing programs (fast, slow, stalls of 0.15-16 s placed around the queue/pipe/window boundaries), sessions of killed clients before judged ones, files rotated or unlinked during a slow read, grep sessions that select nothing for seconds while a 350 MB read goes on, servers that answer only seconds after the client started, wildcards that also match paths the server refuses, race-detector pass in the thorough tier; every line carries (file, sequence number, CRC), some are 40-330 KB long; oracle = exactly-once in-order delivery per file, exit status 0, termination by a logical-time hang rule; hook traces attribute losses of multi-command sessions to the recorded finding",
 "Held on the sessions counted in the evidence (pacing x size x files x limit x transport cells, distinct hook-order signatures).",
 "Trusted: /proc-based idle detection; finding c02.cmd-race is only accepted for multi-command sessions with suffix-only loss and a trace showing shutdown before a later command.",
 "DESIGN.md §2 C02")
add("C07","exploration",
 "runtime monitoring: real dcat/dgrep/dtail against fleets of 2-8 in-process servers with several files each (lines up to just below the line limit, and beyond it with the pieces re-assembled per source), paced stdout, writers whose writes end in the middle of a line; every source line carries its own host, file, number, length and CRC; oracle applied to every output line (complete record, checksum, attribution, per-source order)",
 "Held on the output lines counted in the evidence (sources up to 8 servers x 5 files; source switches actually observed are counted).",
 "Trusted: CRC32 self-description of the lines; host identity via DTAIL_HOSTNAME_OVERRIDE.",
 "DESIGN.md §2 C07")
add("C06","exploration",
 "runtime monitoring: conservation oracle over real dmap runs (fleets, long and pipe-fed runs, files queued behind the read limit, sessions over more files than the aggregator's queue holds, servers without any readable file or with files whose reader fails, race-detector pass in the thorough tier) against fleets of 1-32 in-process servers (every line carries weight 1 and its file id; result grouped per file or per shared group), hook-trace monitor of the server-side aggregator's registration/closed/finished order, failpoint-style delays at the hook points, logical-time hang rule; plus an in-process tier merging messages from N concurrent connections into one global group",
 "Held on the runs counted in the evidence (fleet sizes, files per server, limits, distinct aggregator event orders observed).",
 "Trusted: hook call sites for attribution only (the CSV decides); c06.cmd-race (a read command received after the aggregator and session had finished) is accepted only with that trace pattern, no excess, and deficits on servers showing it; files of received commands missing from a result are violations.",
 "DESIGN.md §2 C06")
add("C04","exploration",
 "runtime monitoring: the real tail reader follows real files in worker processes while the harness appends through seeded write() chunkers (incl. consumers that keep up for hundreds of lines and then fall behind by a handful; follows through a symbolic link), starting only once the reader's descriptor offset (/proc fdinfo) shows it is positioned; delivered lines (content, running number, transmission percentage) are checked against the appended lines; real dtail (serverless and over SSH) for a sample, and 10 s follows with a continuous writer and a delay at the hook point where the follower sees EOF (housekeeping rounds), and follows interrupted by SIGINT with a slow consumer (order of the delivered lines); other sessions that end early or are killed run on the followed server meanwhile; one client following several files at once",
 "Held on the follows counted in the evidence (chunkers x sizes x queue regimes; drops actually provoked in regime b are counted).",
 "Trusted: /proc fdinfo offsets; regime a = queue can never be full; regime b without filter; append-only writers.",
 "DESIGN.md §2 C04")
add("C15","fault_enumeration",
 "runtime monitoring with fault injection: kill points of the real dmap are enumerated (every out.* hook event of a reference run is re-run with SIGKILL delivered exactly there; under strace SIGKILL is injected at the N-th syscall touching the four paths and the position hit is read back; write faults: from the N-th write on every write to those paths fails with ENOSPC); the non-cumulative client of the server's continuous jobs runs in worker processes, is cancelled at various points and watched the same way, after each kill the on-disk state is judged; a watcher re-reads the outfile continuously during un-killed runs; some scenarios put the outfile on another filesystem than the temporary directory; earlier runs against an outfile spell their query differently; the outfile of a scheduled job lasting longer than the scheduler's period is watched as well",
 "All listed hook kill points of the quick scenarios are hit (counts in the evidence); syscall-level positions are enumerated for the small scenarios and listed as hit / not hit.",
 "Trusted: strace's path filter and injection; hook call sites out.* (strace tier is hook-free); a kill inside one write(2) is not separately reachable.",
 "DESIGN.md §2 C15")
add("C17","exploration",
 "runtime monitoring: seeded known_hosts layouts and prompt scripts (answers, no answer, end of input at once or after a non-answer, hosts approved in two separate prompts of one run; trust-all against eight unknown servers at once with thousands of old entries); the real dcat/dtail run against harness-controlled SSH servers with chosen (and changing) host keys, known_hosts edited while the client is connected, known_hosts that cannot be parsed; oracle = per server, shell opened and command bytes received (server-side event log) iff trusted, plus a structural comparison of known_hosts before and after and a prompt-free second run",
 "Held on the cases counted in the evidence (entry kinds x answers; reconnect cases with a changed host key).",
 "Trusted: x/crypto/ssh/knownhosts for generating test entries (also used by the subject); clients run with --logger none.",
 "DESIGN.md §2 C17")
