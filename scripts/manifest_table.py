add("C18","exploration",
 "runtime monitoring: seeded list generator + oracle over the discovery API's output in worker processes; real dcat against fake SSH servers counting connections per port",
 "Held on the generated lists (sizes 0..5000, all duplicate layouts, comma/file/plug-in+regex) and on the e2e runs listed in the evidence; nothing is claimed for list shapes outside the generator.",
 "Trusted: Go regexp, sort; assumes blank entries are out of scope; the /regex/ filter is reached through a verif-tagged plug-in module.",
 "DESIGN.md §2 C18")
